//! Witness search and replay against the real xot crate (path dependency on /repo).
//!
//! `replay search <target> <small|large>` enumerates small inputs for the contract family `target`,
//! runs the real code, and evaluates an executable mirror of the postcondition.  The first violating
//! input is printed as `WITNESS <json>`.  `replay replay '<json>'` re-executes one witness and exits 1
//! if it still violates.  The enumerators never decide a property; they only attach a concrete input to
//! an obligation the verifier has already failed.
use std::panic;
use xot::output::xml::Parameters;
use xot::output::Indentation;
use xot::Xot;

fn strings(alphabet: &[char], max_len: usize) -> Vec<String> {
    let mut out = vec![String::new()];
    let mut frontier = vec![String::new()];
    for _ in 0..max_len {
        let mut next = Vec::new();
        for s in &frontier {
            for c in alphabet {
                let mut t = s.clone();
                t.push(*c);
                next.push(t);
            }
        }
        out.extend(next.iter().cloned());
        frontier = next;
    }
    out
}

const CRIT: &[char] = &['\t', '\n', '\r', ' ', '&', '<', '>', '\'', '"', ']', ';', '#', 'x', 'a', '\u{10000}'];

fn json_str(s: &str) -> String {
    let mut o = String::from("\"");
    for c in s.chars() {
        match c {
            '"' => o.push_str("\\\""),
            '\\' => o.push_str("\\\\"),
            '\n' => o.push_str("\\n"),
            '\r' => o.push_str("\\r"),
            '\t' => o.push_str("\\t"),
            c if (c as u32) < 0x20 => o.push_str(&format!("\\u{:04x}", c as u32)),
            c => o.push(c),
        }
    }
    o.push('"');
    o
}

fn witness(target: &str, input: &str, detail: &str) -> String {
    format!("{{\"target\":{},\"input\":{},\"detail\":{}}}", json_str(target), json_str(input), json_str(detail))
}

/// Some(detail) if the input violates the mirrored postcondition
fn eval(target: &str, input: &str) -> Option<String> {
    let r = panic::catch_unwind(|| eval_inner(target, input));
    match r {
        Ok(v) => v,
        Err(_) => Some("panic".to_string()),
    }
}

fn eval_inner(target: &str, input: &str) -> Option<String> {
    match target {
        // text node content survives to_string -> parse
        "text_roundtrip" | "text_roundtrip_gt" => {
            if input.is_empty() {
                return None;
            }
            let mut xot = Xot::new();
            let a = xot.add_name("a");
            let el = xot.new_element(a);
            let t = xot.new_text(input);
            xot.append(el, t).unwrap();
            let params = Parameters { unescaped_gt: target == "text_roundtrip_gt", ..Default::default() };
            let s = xot.serialize_xml_string(params, el).unwrap();
            let mut xot2 = Xot::new();
            match xot2.parse(&s) {
                Err(e) => Some(format!("serialised as {:?}, reparse failed: {:?}", s, e)),
                Ok(root) => {
                    let de = xot2.document_element(root).unwrap();
                    let got = xot2.string_value(de);
                    if got != input { Some(format!("serialised as {:?}, read back as {:?}", s, got)) } else { None }
                }
            }
        }
        "attr_roundtrip" => {
            let mut xot = Xot::new();
            let a = xot.add_name("a");
            let b = xot.add_name("b");
            let el = xot.new_element(a);
            xot.attributes_mut(el).insert(b, input.to_string());
            let s = xot.to_string(el).unwrap();
            let mut xot2 = Xot::new();
            match xot2.parse(&s) {
                Err(e) => Some(format!("serialised as {:?}, reparse failed: {:?}", s, e)),
                Ok(root) => {
                    let de = xot2.document_element(root).unwrap();
                    let b2 = xot2.add_name("b");
                    let got = xot2.attributes(de).get(b2).cloned();
                    if got.as_deref() != Some(input) { Some(format!("serialised as {:?}, read back as {:?}", s, got)) } else { None }
                }
            }
        }
        "cdata_roundtrip" => {
            if input.is_empty() {
                return None;
            }
            let mut xot = Xot::new();
            let a = xot.add_name("a");
            let el = xot.new_element(a);
            let t = xot.new_text(input);
            xot.append(el, t).unwrap();
            let params = Parameters { cdata_section_elements: vec![a], ..Default::default() };
            let s = xot.serialize_xml_string(params, el).unwrap();
            let mut xot2 = Xot::new();
            match xot2.parse(&s) {
                Err(e) => Some(format!("serialised as {:?}, reparse failed: {:?}", s, e)),
                Ok(root) => {
                    let de = xot2.document_element(root).unwrap();
                    let got = xot2.string_value(de);
                    // the parser is expected to normalise line ends inside CDATA; compare with the line-end-free reading
                    if got != input { Some(format!("serialised as {:?}, read back as {:?}", s, got)) } else { None }
                }
            }
        }
        // input: an XML document; indentation must not add whitespace inside mixed content / preserve scope
        "pretty_scope" => {
            let mut xot = Xot::new();
            let root = xot.parse(input).ok()?;
            let params = Parameters { indentation: Some(Indentation::default()), ..Default::default() };
            let s = xot.serialize_xml_string(params, root).unwrap();
            let mut xot2 = Xot::new();
            let root2 = match xot2.parse(&s) {
                Ok(r) => r,
                Err(e) => return Some(format!("pretty output {:?} does not reparse: {:?}", s, e)),
            };
            // every whitespace-only text node of the reparse that has no counterpart in the source
            let space = xot2.xml_space_name();
            let nodes: Vec<_> = xot2.descendants(root2).collect();
            for n in nodes {
                if let Some(t) = xot2.text_str(n) {
                    if t.chars().all(|c| c == ' ' || c == '\n') && !input.contains(&format!(">{}<", t)) {
                        // added by pretty printing: where is it?
                        let parent = xot2.parent(n).unwrap();
                        let mut preserve = false;
                        for anc in xot2.ancestors(parent) {
                            if xot2.is_element(anc) {
                                if let Some(v) = xot2.attributes(anc).get(space) {
                                    preserve = v == "preserve";
                                    break;
                                }
                            }
                        }
                        let mixed = xot2.children(parent).any(|c| xot2.text_str(c).map(|t| !t.trim().is_empty()).unwrap_or(false));
                        if preserve || mixed {
                            return Some(format!("pretty output {:?} adds whitespace inside {} content", s, if preserve { "xml:space=preserve" } else { "mixed" }));
                        }
                    }
                }
            }
            None
        }
        "html_text" => {
            if input.is_empty() {
                return None;
            }
            let mut xot = Xot::new();
            let p = xot.add_name("p");
            let el = xot.new_element(p);
            let t = xot.new_text(input);
            xot.append(el, t).unwrap();
            let s = xot.html5().to_string(el).unwrap();
            let body = s.strip_prefix("<!DOCTYPE html><p>")?.strip_suffix("</p>")?;
            if body.contains('<') { return Some(format!("raw '<' from text in {:?}", s)); }
            let mut rest = body;
            while let Some(i) = rest.find('&') {
                let tail = &rest[i..];
                if !(tail.starts_with("&amp;") || tail.starts_with("&lt;") || tail.starts_with("&gt;") || tail.starts_with("&nbsp;")) {
                    return Some(format!("raw '&' from text in {:?}", s));
                }
                rest = &rest[i + 1..];
            }
            None
        }
        "html_attr" => {
            let mut xot = Xot::new();
            let p = xot.add_name("p");
            let title = xot.add_name("title");
            let el = xot.new_element(p);
            xot.attributes_mut(el).insert(title, input.to_string());
            let s = xot.html5().to_string(el).unwrap();
            let body = s.strip_prefix("<!DOCTYPE html><p title=\"")?.strip_suffix("\"></p>")?;
            if body.contains('"') { return Some(format!("raw '\"' in attribute value in {:?}", s)); }
            let mut rest = body;
            while let Some(i) = rest.find('&') {
                let tail = &rest[i..];
                if !(tail.starts_with("&amp;") || tail.starts_with("&lt;") || tail.starts_with("&gt;") || tail.starts_with("&nbsp;") || tail.starts_with("&quot;") || tail.starts_with("&apos;")) {
                    return Some(format!("raw '&' in attribute value in {:?}", s));
                }
                rest = &rest[i + 1..];
            }
            None
        }
        // XHTML namespace must be the W3C one: an element in it is written unprefixed
        "xhtml_ns" => {
            let mut xot = Xot::new();
            let root = xot.parse(input).ok()?;
            let s = xot.html5().to_string(root).unwrap();
            if s.contains("<h:") { Some(format!("element in the XHTML namespace written prefixed: {:?}", s)) } else { None }
        }
        // whitespace stripping: a text node of non-XML whitespace must survive
        "strip_ws" => {
            if input.is_empty() {
                return None;
            }
            let mut xot = Xot::new();
            let a = xot.add_name("a");
            let b = xot.add_name("b");
            let el = xot.new_element(a);
            let c1 = xot.new_element(b);
            let t = xot.new_text(input);
            let c2 = xot.new_element(b);
            xot.append(el, c1).unwrap();
            xot.append(el, t).unwrap();
            xot.append(el, c2).unwrap();
            xot.remove_insignificant_whitespace(el);
            let removed = xot.is_removed(t);
            let xml_ws = input.chars().all(|c| c == ' ' || c == '\t' || c == '\r' || c == '\n');
            if removed != xml_ws { Some(format!("text {:?}: removed={} but xml-whitespace-only={}", input, removed, xml_ws)) } else { None }
        }
        // xml:id normalisation: value -> tokens joined by one space
        "xml_id" => {
            if input.contains(|c| c == '<' || c == '&' || c == '"') {
                return None;
            }
            // literal TAB is turned into a space by attribute-value normalisation before xml:id normalisation
            let norm = input.replace('\t', " ");
            let expected: Vec<&str> = norm.split(' ').filter(|t| !t.is_empty()).collect();
            let expected = expected.join(" ");
            if expected.is_empty() {
                return None;
            }
            let doc = format!("<a xml:id=\"{}\"/>", input);
            let mut xot = Xot::new();
            let root = xot.parse(&doc).ok()?;
            match xot.xml_id_node(root, &expected) {
                Some(_) => None,
                None => Some(format!("{:?}: xml_id_node(\"{}\") finds nothing", doc, expected)),
            }
        }
        "default_ns" => c10_default_ns_witness(),
        "fixed_doc" => c20_fixed_doc(input),
        "strip_scope" => c18_strip_scope(input),
        "shallow_ignore" => c13_shallow(input),
        "scope_queries" => c09_scope(input),
        "ns_layout" => bounded::ns_layout(input),
        "char_ref" => bounded::char_ref(input),
        "level_order" => bounded::level_order(input),
        "tree_ops" => {
            let f: Vec<&str> = input.split(' ').collect();
            if f.len() != 5 { return None; }
            treeops::run(f[0].parse().ok()?, f[1] == "1", f[2], f[3].parse().ok()?, f[4].parse().ok()?)
        }
        _ => Some(format!("unknown target {}", target)),
    }
}

fn inputs(target: &str, large: bool) -> Vec<String> {
    match target {
        "pretty_scope" => {
            let mut v = Vec::new();
            let spaces = ["", " xml:space=\"preserve\"", " xml:space=\"default\""];
            for s1 in spaces {
                for s2 in spaces {
                    for s3 in spaces {
                        v.push(format!("<doc{}><a{}><b{}><c/></b></a></doc>", s1, s2, s3));
                        v.push(format!("<doc{}><a{}>text<b{}><c/></b></a></doc>", s1, s2, s3));
                        v.push(format!("<doc{}><a{}><b{}><c/><!--x--></b><d/></a></doc>", s1, s2, s3));
                    }
                }
            }
            v
        }
        "tree_ops" => {
            let mut v = Vec::new();
            for shape in 0..treeops::shapes() {
                for cons in ["1", "0"] {
                    for op in ["append", "insert_after", "insert_before", "detach", "remove"] {
                        for x in 0..7 {
                            for y in 0..7 {
                                if (op == "detach" || op == "remove") && y != 0 { continue; }
                                v.push(format!("{} {} {} {} {}", shape, cons, op, x, y));
                            }
                        }
                    }
                }
            }
            v
        }
        "ns_layout" => bounded::ns_layouts(),
        "char_ref" => bounded::ref_strings(large),
        "level_order" => { let mut v = Vec::new(); for d in 0..3 { for n in 0..12 { v.push(format!("{} {}", d, n)); } } v }
        "scope_queries" => {
            let decls = ["", "d1", "d2", "d0", "p1", "p2", "q1", "q2", "d1p1", "p1q1", "q1p1", "p2q1", "d0p1", "d2p1", "p1q2"];
            let mut v = Vec::new();
            for a in decls { for b in decls { for c in decls { v.push(format!("{}|{}|{}", a, b, c)); } } }
            v
        }
        "shallow_ignore" => {
            let sets = ["", "x1", "x2", "y1", "x1y1", "x1y2", "y1x1", "x1y1z1"];
            let ign = ["", "x", "y", "xx", "xy", "yx", "xxy", "z", "xyz", "zz"];
            let mut v = Vec::new();
            for a in sets { for b in sets { for i in ign { v.push(format!("{}|{}|{}", a, b, i)); } } }
            v
        }
        "strip_scope" => {
            let sp = ["", " xml:space=\"preserve\"", " xml:space=\"default\""];
            let mut v = Vec::new();
            for a in sp { for b in sp { for c in sp {
                let docs = [
                    format!("<d{}><p{}>  <b{}>x</b>  </p><q>  </q></d>", a, b, c),
                    format!("<d{}> <p{}> t <b{}> </b></p>{}</d>", a, b, c, '\u{a0}'),
                    format!("<d{}><p{}><b{}>  </b><!--c-->  </p></d>", a, b, c),
                ];
                for d in docs { for start in 0..4 { v.push(format!("{}|{}", d, start)); } }
            }}}
            v
        }
        "fixed_doc" => { let mut v = Vec::new(); for b in 0..4 { for a in 0..4 { v.push(format!("{} {}", b, a)); } } v }
        "default_ns" => vec!["<a xmlns=\"u\"/> + append(new element b in no namespace)".to_string()],
        "xhtml_ns" => vec!["<h:p xmlns:h=\"http://www.w3.org/1999/xhtml\"><h:br/></h:p>".to_string()],
        "text_roundtrip_gt" | "cdata_roundtrip" => {
            // bracket / '>' runs first (the ]]> guard and the CDATA splitter), then the general alphabet
            let mut v = strings(&[']', '>', 'x'], if large { 7 } else { 6 });
            v.extend(strings(CRIT, if large { 4 } else { 3 }));
            v
        }
        "strip_ws" => strings(&[' ', '\t', '\n', '\r', '\u{a0}', '\u{2003}', 'x'], if large { 4 } else { 3 }),
        "xml_id" => strings(&[' ', 'x', 'y', '\t'], if large { 7 } else { 5 }),
        _ => strings(CRIT, if large { 4 } else { 3 }),
    }
}

fn main() {
    panic::set_hook(Box::new(|_| {}));
    let args: Vec<String> = std::env::args().collect();
    if args.len() >= 4 && args[1] == "search" {
        let target = &args[2];
        let large = args[3] == "large";
        let ins = inputs(target, large);
        let mut n = 0usize;
        for i in &ins {
            n += 1;
            if let Some(d) = eval(target, i) {
                println!("SEARCHED {}", n);
                println!("WITNESS {}", witness(target, i, &d));
                return;
            }
        }
        println!("SEARCHED {}", n);
        println!("NONE");
    } else if args.len() >= 4 && args[1] == "eval" {
        // replay eval <target> <input>
        match eval(&args[2], &args[3]) {
            Some(d) => {
                println!("VIOLATES: {}", d);
                std::process::exit(1);
            }
            None => println!("holds"),
        }
    } else {
        eprintln!("usage: replay search <target> <small|large> | replay eval <target> <input>");
        std::process::exit(2);
    }
}

// =============================================================================================
// tree operations: an independent ordered-tree reference model (the model of contracts/U9_manip.vc written
// out executably) run side by side with the real crate on small forests and all (operation, node, node) pairs
mod treeops {
    use std::panic;
    use xot::{Node, Xot};

    #[derive(Clone, Debug, PartialEq)]
    pub enum Kind { Doc, Elem(&'static str), Text(String), Comment(String), Attr(&'static str, String) }

    #[derive(Clone, Debug)]
    pub struct M { pub kind: Vec<Kind>, pub parent: Vec<Option<usize>>, pub kids: Vec<Vec<usize>>, pub alive: Vec<bool> }

    impl M {
        fn is_text(&self, n: usize) -> bool { matches!(self.kind[n], Kind::Text(_)) }
        fn normal(&self, n: usize) -> bool { !matches!(self.kind[n], Kind::Attr(..)) }
        fn text(&self, n: usize) -> String { if let Kind::Text(t) = &self.kind[n] { t.clone() } else { String::new() } }
        fn pos(&self, n: usize) -> usize { let p = self.parent[n].unwrap(); self.kids[p].iter().position(|x| *x == n).unwrap() }
        fn prev_same(&self, n: usize) -> Option<usize> {
            let p = self.parent[n]?; let i = self.pos(n); if i == 0 { return None; }
            let m = self.kids[p][i - 1]; if self.normal(m) == self.normal(n) { Some(m) } else { None } }
        fn next_same(&self, n: usize) -> Option<usize> {
            let p = self.parent[n]?; let i = self.pos(n); let m = *self.kids[p].get(i + 1)?;
            if self.normal(m) == self.normal(n) { Some(m) } else { None } }
        fn is_anc_or_self(&self, a: usize, mut n: usize) -> bool { loop { if n == a { return true; } match self.parent[n] { Some(p) => n = p, None => return false } } }
        fn detach_raw(&mut self, n: usize) { if let Some(p) = self.parent[n] { let i = self.pos(n); self.kids[p].remove(i); self.parent[n] = None; } }
        fn kill(&mut self, n: usize) { self.detach_raw(n); let ks = self.kids[n].clone(); for k in ks { self.parent[k] = None; self.kill(k); } self.kids[n].clear(); self.alive[n] = false; }
        fn merge(&mut self, a: usize, b: usize) { let t = self.text(a) + &self.text(b); self.kind[a] = Kind::Text(t); self.kill(b); }
        fn absorb(&mut self, c: usize, b: usize) { let t = self.text(c) + &self.text(b); self.kind[b] = Kind::Text(t); self.kill(c); }
        fn leave(&mut self, c: usize, cons: bool) {
            if let (Some(a), Some(b)) = (self.prev_same(c), self.next_same(c)) { if cons && self.is_text(a) && self.is_text(b) { self.merge(a, b); } } }
        fn may_adopt(&self, p: usize, c: usize) -> bool {
            matches!(self.kind[p], Kind::Elem(_) | Kind::Doc) && self.normal(c) && self.kind[c] != Kind::Doc && !self.is_anc_or_self(c, p) }
        fn last_normal(&self, p: usize) -> Option<usize> { let l = *self.kids[p].last()?; if self.normal(l) { Some(l) } else { None } }
        /// Ok(true) applied, Ok(false) refused (unchanged), Err = outside the proved domain (known finding)
        pub fn apply(&mut self, op: &str, x: usize, y: usize, cons: bool) -> Result<bool, ()> {
            match op {
                "detach" => { let (a, b) = (self.prev_same(x), self.next_same(x)); self.detach_raw(x);
                    if let (Some(a), Some(b)) = (a, b) { if cons && self.is_text(a) && self.is_text(b) { self.merge(a, b); } } Ok(true) }
                "remove" => { let (a, b) = (self.prev_same(x), self.next_same(x)); self.kill(x);
                    if let (Some(a), Some(b)) = (a, b) { if cons && self.is_text(a) && self.is_text(b) { self.merge(a, b); } } Ok(true) }
                "append" => { let (p, c) = (x, y); if !self.may_adopt(p, c) { return Ok(false); }
                    self.leave(c, cons);
                    match self.last_normal(p) { Some(a) if cons && a != c && self.is_text(c) && self.is_text(a) => self.merge(a, c),
                        _ => { self.detach_raw(c); self.kids[p].push(c); self.parent[c] = Some(p); } }
                    Ok(true) }
                "insert_after" | "insert_before" => { let (r, c) = (x, y);
                    let p = match self.parent[r] { Some(p) => p, None => return Ok(false) };
                    if !self.normal(r) || r == c || !self.may_adopt(p, c) { return Ok(false); }
                    // known finding: the reference node is consolidated away
                    if cons && self.next_same(c) == Some(r) && self.prev_same(c).map(|a| self.is_text(a)).unwrap_or(false) && self.is_text(r) { return Err(()); }
                    self.leave(c, cons);
                    let after = op == "insert_after";
                    let in_place = if after { self.next_same(r) == Some(c) } else { self.prev_same(r) == Some(c) };
                    if cons && self.is_text(c) && !in_place {
                        let (a, b) = if after { (Some(r), self.next_same(r)) } else { (self.prev_same(r), Some(r)) };
                        if let Some(a) = a { if self.is_text(a) { self.merge(a, c); return Ok(true); } }
                        if let Some(b) = b { if self.is_text(b) { self.absorb(c, b); return Ok(true); } }
                    }
                    self.detach_raw(c); let i = self.pos(r) + if after { 1 } else { 0 }; self.kids[p].insert(i, c); self.parent[c] = Some(p);
                    Ok(true) }
                _ => Err(()),
            }
        }
    }

    /// build the same forest in the model and in a Xot; `spec` is a small s-expression-like list
    pub fn build(which: usize, cons: bool) -> (M, Xot, Vec<Node>) {
        use Kind::*;
        // (kind, parent index)
        let shapes: Vec<Vec<(Kind, Option<usize>)>> = vec![
            vec![(Doc, None), (Elem("a"), Some(0)), (Text("x".into()), Some(1)), (Elem("b"), Some(1)), (Text("y".into()), Some(1)), (Elem("c"), Some(1)), (Text("z".into()), Some(5))],
            vec![(Doc, None), (Elem("a"), Some(0)), (Attr("p", "1".into()), Some(1)), (Attr("q", "2".into()), Some(1)), (Elem("b"), Some(1)), (Elem("c"), Some(1)), (Comment("k".into()), Some(5))],
            vec![(Elem("r"), None), (Elem("a"), Some(0)), (Elem("b"), Some(1)), (Elem("c"), Some(2)), (Text("t".into()), Some(0)), (Elem("u"), None), (Text("v".into()), None)],
            vec![(Doc, None), (Elem("a"), Some(0)), (Text("x".into()), Some(1)), (Elem("b"), Some(1)), (Text("t".into()), Some(3)), (Elem("c"), Some(1)), (Text("y".into()), Some(1))],
        ];
        let shape = &shapes[which % shapes.len()];
        let mut xot = Xot::new();
        xot.set_text_consolidation(cons);
        let mut m = M { kind: vec![], parent: vec![], kids: vec![], alive: vec![] };
        let mut nodes = vec![];
        for (k, p) in shape {
            let n = match k {
                Doc => xot.new_document(),
                Elem(nm) => { let id = xot.add_name(nm); xot.new_element(id) }
                Text(t) => xot.new_text(t),
                Comment(t) => xot.new_comment(t),
                Attr(nm, v) => { let id = xot.add_name(nm); xot.new_attribute_node(id, v.clone()) }
            };
            m.kind.push(k.clone()); m.parent.push(None); m.kids.push(vec![]); m.alive.push(true);
            let i = nodes.len();
            nodes.push(n);
            if let Some(p) = p {
                xot.any_append(nodes[*p], n).unwrap();
                m.parent[i] = Some(*p); m.kids[*p].push(i);
            }
        }
        (m, xot, nodes)
    }

    pub fn shapes() -> usize { 4 }

    fn observe(xot: &Xot, nodes: &[Node]) -> Vec<String> {
        // one line per handle: liveness, parent, all children (attributes included), value
        nodes.iter().map(|n| {
            if xot.is_removed(*n) { return "removed".to_string(); }
            let idx = |x: Node| nodes.iter().position(|y| *y == x).map(|i| i.to_string()).unwrap_or("?".into());
            let parent = xot.parent(*n).map(idx).unwrap_or("-".into());
            let mut kids: Vec<String> = xot.attributes(*n).nodes().map(idx).collect();
            kids.extend(xot.children(*n).map(idx));
            format!("p={} k=[{}] v={:?}", parent, kids.join(","), value_str(xot, *n))
        }).collect()
    }
    fn value_str(xot: &Xot, n: Node) -> String {
        match xot.value(n) { xot::Value::Text(t) => format!("T:{}", t.get()), xot::Value::Comment(c) => format!("C:{}", c.get()),
            xot::Value::Element(_) => "E".into(), xot::Value::Document => "D".into(), xot::Value::Attribute(a) => format!("A:{}", a.value()), _ => "?".into() }
    }
    fn observe_model(m: &M) -> Vec<String> {
        (0..m.kind.len()).map(|i| {
            if !m.alive[i] { return "removed".to_string(); }
            let parent = m.parent[i].map(|p| p.to_string()).unwrap_or("-".into());
            let kids: Vec<String> = m.kids[i].iter().map(|k| k.to_string()).collect();
            let v = match &m.kind[i] { Kind::Text(t) => format!("T:{}", t), Kind::Comment(c) => format!("C:{}", c), Kind::Elem(_) => "E".into(), Kind::Doc => "D".into(), Kind::Attr(_, v) => format!("A:{}", v) };
            format!("p={} k=[{}] v={:?}", parent, kids.join(","), v)
        }).collect()
    }

    /// Some(detail) if the real crate deviates from the model for this case
    pub fn run(which: usize, cons: bool, op: &str, x: usize, y: usize) -> Option<String> {
        let (mut m, mut xot, nodes) = build(which, cons);
        if x >= nodes.len() || y >= nodes.len() { return None; }
        let before = observe(&xot, &nodes);
        let expected = m.apply(op, x, y, cons);
        let expected = match expected { Err(()) => return None, Ok(b) => b };
        let r = panic::catch_unwind(panic::AssertUnwindSafe(|| match op {
            "detach" => xot.detach(nodes[x]).is_ok(),
            "remove" => xot.remove(nodes[x]).is_ok(),
            "append" => xot.append(nodes[x], nodes[y]).is_ok(),
            "insert_after" => xot.insert_after(nodes[x], nodes[y]).is_ok(),
            "insert_before" => xot.insert_before(nodes[x], nodes[y]).is_ok(),
            _ => false,
        }));
        let ok = match r { Err(_) => return Some(format!("{}({}, {}) panics", op, x, y)), Ok(ok) => ok };
        let after = observe(&xot, &nodes);
        if ok != expected { return Some(format!("{}({}, {}) returned {} but the model {}", op, x, y, if ok { "Ok" } else { "Err" }, if expected { "accepts" } else { "refuses" })); }
        let want = if expected { observe_model(&m) } else { before };
        if after != want { return Some(format!("{}({}, {}) [{}]: forest {:?} differs from the model {:?}", op, x, y, if ok { "Ok" } else { "Err" }, after, want)); }
        None
    }
}
// (C10 witness) no-namespace element below a default namespace declaration
#[allow(dead_code)]
fn c10_default_ns_witness() -> Option<String> {
    let mut xot = Xot::new();
    let root = xot.parse("<a xmlns=\"u\"/>").ok()?;
    let a = xot.document_element(root).ok()?;
    let b = xot.add_name("b");
    let el = xot.new_element(b);
    xot.append(a, el).ok()?;
    let s = xot.to_string(root).ok()?;
    let mut xot2 = Xot::new();
    let root2 = xot2.parse(&s).ok()?;
    let a2 = xot2.document_element(root2).ok()?;
    let b2 = xot2.first_child(a2)?;
    let name = xot2.element(b2)?.name();
    let (_, ns) = xot2.name_ns_str(name);
    if ns != "" { Some(format!("serialised as {:?}; the element b is read back in namespace {:?}", s, ns)) } else { None }
}

// =============================================================================================
// bounded stand-ins for functions outside the verifier's reach (labelled bounded, never counted as proved)
mod bounded {
    use xot::Xot;

    /// namespace layouts: three nested elements, each optionally (re)declaring the default namespace (u1, u2 or
    /// undeclaring it) and/or a prefix p / q, each named in no namespace, u1 or u2, plus an attribute on the innermost
    /// element.  Serialisation must fail or reparse to the same expanded names (C01 / C10).
    pub fn ns_layouts() -> Vec<String> {
        let mut v = Vec::new();
        let decls = ["", "d1", "d2", "d0", "p1", "p2", "q1", "d1p1", "d1q1", "d0p1", "d2p1"];
        let names = ["0", "1", "2"];
        for da in decls { for db in decls { for dc in ["", "d0", "p2", "d2"] {
            for na in names { for nb in names { for nc in names { for attr in ["-", "1", "2"] {
                v.push(format!("{}|{}|{}|{}{}{}|{}", da, db, dc, na, nb, nc, attr));
            }}}}
        }}}
        v
    }

    pub fn ns_layout(input: &str) -> Option<String> {
        let f: Vec<&str> = input.split('|').collect();
        if f.len() != 5 { return None; }
        let mut xot = Xot::new();
        let uris = ["", "http://u1", "http://u2"];
        let ns_ids: Vec<_> = uris.iter().map(|u| xot.add_namespace(u)).collect();
        let empty = xot.empty_prefix();
        let p = xot.add_prefix("p");
        let q = xot.add_prefix("q");
        let names: Vec<char> = f[3].chars().collect();
        let mut els = Vec::new();
        for (i, local) in ["a", "b", "c"].iter().enumerate() {
            let nsi = names[i].to_digit(10)? as usize;
            let name = xot.add_name_ns(local, ns_ids[nsi]);
            let el = xot.new_element(name);
            // declarations
            let d = f[i];
            let mut k = 0;
            let chars: Vec<char> = d.chars().collect();
            while k + 1 < chars.len() {
                let pre = match chars[k] { 'd' => empty, 'p' => p, 'q' => q, _ => return None };
                let n = ns_ids[chars[k + 1].to_digit(10)? as usize];
                if pre != empty && chars[k + 1] == '0' { return None; }
                xot.namespaces_mut(el).insert(pre, n);
                k += 2;
            }
            if let Some(parent) = els.last() { xot.append(*parent, el).ok()?; }
            els.push(el);
        }
        if f[4] != "-" {
            let nsi = f[4].parse::<usize>().ok()?;
            let an = xot.add_name_ns("at", ns_ids[nsi]);
            xot.attributes_mut(els[2]).insert(an, "v".to_string());
        }
        // known finding (C10): an element in no namespace below a default namespace declaration
        {
            let mut default_bound = false;
            for (i, d) in f[..3].iter().enumerate() {
                if d.contains("d1") || d.contains("d2") { default_bound = true; }
                if d.contains("d0") { default_bound = false; }
                if names[i] == '0' && default_bound { return None; }
            }
        }
        let s = match xot.to_string(els[0]) { Ok(s) => s, Err(_) => return None };   // refusing is allowed
        let mut xot2 = Xot::new();
        let root2 = match xot2.parse(&s) { Ok(r) => r, Err(e) => return Some(format!("serialised as {:?}, which does not reparse: {:?}", s, e)) };
        let mut n2 = xot2.document_element(root2).ok()?;
        for (i, el) in els.iter().enumerate() {
            let want = { let nm = xot.element(*el)?.name(); let (l, u) = xot.name_ns_str(nm); (l.to_string(), u.to_string()) };
            let got = { let nm = xot2.element(n2)?.name(); let (l, u) = xot2.name_ns_str(nm); (l.to_string(), u.to_string()) };
            if want != got { return Some(format!("serialised as {:?}: element {} is read back as {:?} instead of {:?}", s, i, got, want)); }
            if i == 2 && f[4] != "-" {
                let want: Vec<(String, String)> = xot.attributes(*el).keys().map(|k| { let (l, u) = xot.name_ns_str(k); (l.to_string(), u.to_string()) }).collect();
                let got: Vec<(String, String)> = xot2.attributes(n2).keys().map(|k| { let (l, u) = xot2.name_ns_str(k); (l.to_string(), u.to_string()) }).collect();
                if want != got { return Some(format!("serialised as {:?}: attributes read back as {:?} instead of {:?}", s, got, want)); }
            }
            if i < 2 { n2 = xot2.first_child(n2)?; }
        }
        None
    }

    /// character / entity references: the parser must accept exactly the XML 1.0 productions
    /// `&name;` (five predefined names), `&#[0-9]+;`, `&#x[0-9a-fA-F]+;` denoting an XML Char
    pub fn ref_strings(large: bool) -> Vec<String> {
        super::strings(&['&', '#', 'x', 'X', '4', '1', 'A', 'g', 't', ';', '+', '0'], if large { 7 } else { 6 })
            .into_iter().filter(|s| s.starts_with('&') && s.contains(';')).collect()
    }

    fn xml_ref_value(body: &str) -> Option<char> {
        match body { "amp" => return Some('&'), "lt" => return Some('<'), "gt" => return Some('>'), "apos" => return Some('\''), "quot" => return Some('"'), _ => {} }
        let code = if let Some(h) = body.strip_prefix("#x") {
            if h.is_empty() || !h.chars().all(|c| c.is_ascii_hexdigit()) { return None; }
            u32::from_str_radix(h, 16).ok()?
        } else if let Some(d) = body.strip_prefix('#') {
            if d.is_empty() || !d.chars().all(|c| c.is_ascii_digit()) { return None; }
            d.parse::<u32>().ok()?
        } else { return None };
        let c = char::from_u32(code)?;
        let ok = matches!(code, 0x9 | 0xA | 0xD | 0x20..=0xD7FF | 0xE000..=0xFFFD | 0x10000..=0x10FFFF);
        if ok { Some(c) } else { None }
    }

    /// reference reading of text consisting of references and the characters of the alphabet
    fn xml_text_value(s: &str) -> Option<String> {
        let mut out = String::new();
        let mut rest = s;
        while !rest.is_empty() {
            if let Some(r) = rest.strip_prefix('&') {
                let end = r.find(';')?;
                out.push(xml_ref_value(&r[..end])?);
                rest = &r[end + 1..];
            } else {
                let c = rest.chars().next()?;
                out.push(c);
                rest = &rest[c.len_utf8()..];
            }
        }
        Some(out)
    }

    pub fn char_ref(input: &str) -> Option<String> {
        let doc = format!("<a>{}</a>", input);
        let want = xml_text_value(input);
        let mut xot = Xot::new();
        match (xot.parse(&doc), want) {
            (Ok(root), Some(w)) => {
                let de = xot.document_element(root).ok()?;
                let got = xot.string_value(de);
                // CR produced by a reference stays CR
                if got != w { Some(format!("{:?} is read as {:?}, XML 1.0 says {:?}", doc, got, w)) } else { None }
            }
            (Ok(root), None) => {
                let de = xot.document_element(root).ok()?;
                Some(format!("{:?} is not well-formed XML (bad reference) but is accepted, read as {:?}", doc, xot.string_value(de)))
            }
            (Err(e), Some(w)) => Some(format!("{:?} is well-formed (denotes {:?}) but is rejected: {:?}", doc, w, e)),
            (Err(_), None) => None,
        }
    }

    /// level_order against a reference breadth-first traversal built from `children`
    pub fn level_order(input: &str) -> Option<String> {
        let f: Vec<&str> = input.split(' ').collect();
        let docs = ["<a><b><d/><e/></b><c><f/></c></a>", "<a>t<b x='1'><c/>u</b><!--k--><d><e><f/></e></d></a>", "<a/>"];
        let mut xot = Xot::new();
        let root = xot.parse(docs[f[0].parse::<usize>().ok()? % docs.len()]).ok()?;
        let nodes: Vec<_> = xot.descendants(root).collect();
        let start = *nodes.get(f[1].parse::<usize>().ok()?)?;
        use xot::LevelOrder;
        let got: Vec<String> = xot.level_order(start).map(|lo| match lo { LevelOrder::Node(n) => format!("N{}", nodes.iter().position(|x| *x == n).unwrap()), LevelOrder::End => "E".to_string() }).collect();
        // reference: start as its own sequence, then the child sequences of every node in breadth-first order
        let mut want = vec![format!("N{}", nodes.iter().position(|x| *x == start).unwrap()), "E".to_string()];
        let mut queue = std::collections::VecDeque::new();
        queue.push_back(start);
        while let Some(n) = queue.pop_front() {
            let kids: Vec<_> = xot.children(n).collect();
            if kids.is_empty() { continue; }
            for k in &kids { want.push(format!("N{}", nodes.iter().position(|x| x == k).unwrap())); queue.push_back(*k); }
            want.push("E".to_string());
        }
        if got != want { Some(format!("level_order from node {} of document {}: {:?}, expected {:?}", f[1], f[0], got, want)) } else { None }
    }
}

// (C20) fixed::Document::xotify: leading and trailing content end up before / after the document element, in order
#[allow(dead_code)]
fn c20_fixed_doc(input: &str) -> Option<String> {
    use xot::fixed;
    let f: Vec<&str> = input.split(' ').collect();
    let (nb, na): (usize, usize) = (f[0].parse().ok()?, f[1].parse().ok()?);
    let mk = |tag: &str, i: usize| if i % 2 == 0 { fixed::DocumentContent::Comment(format!("{}{}", tag, i)) } else {
        fixed::DocumentContent::ProcessingInstruction(fixed::ProcessingInstruction { target: format!("{}{}", tag, i), content: None }) };
    let doc = fixed::Document {
        before: (0..nb).map(|i| mk("b", i)).collect(),
        document_element: fixed::Element { name: fixed::Name { namespace: "".into(), localname: "e".into() }, prefixes: vec![], attributes: vec![], children: vec![fixed::Content::Text("t".into())] },
        after: (0..na).map(|i| mk("a", i)).collect(),
    };
    let mut xot = Xot::new();
    let d = doc.xotify(&mut xot);
    let got = xot.to_string(d).ok()?;
    let show = |tag: &str, i: usize| if i % 2 == 0 { format!("<!--{}{}-->", tag, i) } else { format!("<?{}{}?>", tag, i) };
    let want: String = (0..nb).map(|i| show("b", i)).collect::<String>() + "<e>t</e>" + &(0..na).map(|i| show("a", i)).collect::<String>();
    if got != want { Some(format!("xotify gives {:?}, expected {:?}", got, want)) } else { None }
}

// (C09) scope queries against nearest-declaration-wins, computed independently from the declarations on the path
#[allow(dead_code)]
fn c09_scope(input: &str) -> Option<String> {
    // input: three declaration sets "da|db|dc" like ns_layout (d=default, p, q followed by 0/1/2)
    let f: Vec<&str> = input.split('|').collect();
    if f.len() != 3 { return None; }
    let mut xot = Xot::new();
    let uris = ["", "http://u1", "http://u2"];
    let ns_ids: Vec<_> = uris.iter().map(|u| xot.add_namespace(u)).collect();
    let empty = xot.empty_prefix();
    let p = xot.add_prefix("p");
    let q = xot.add_prefix("q");
    let mut els = Vec::new();
    for (i, local) in ["a", "b", "c"].iter().enumerate() {
        let name = xot.add_name(local);
        let el = xot.new_element(name);
        let chars: Vec<char> = f[i].chars().collect();
        let mut k = 0;
        while k + 1 < chars.len() {
            let pre = match chars[k] { 'd' => empty, 'p' => p, 'q' => q, _ => return None };
            let n = ns_ids[chars[k + 1].to_digit(10)? as usize];
            if pre != empty && chars[k + 1] == '0' { return None; }
            xot.namespaces_mut(el).insert(pre, n);
            k += 2;
        }
        if let Some(parent) = els.last() { xot.append(*parent, el).ok()?; }
        els.push(el);
    }
    let xmlp = xot.xml_prefix();
    let xmlns = xot.xml_namespace();
    for (depth, node) in els.iter().enumerate() {
        // reference: walk from the node outwards, first declaration of each prefix wins
        let mut scope: Vec<(xot::PrefixId, xot::NamespaceId)> = Vec::new();
        for anc in els[..=depth].iter().rev() {
            for (pre, ns) in xot.namespaces(*anc).iter() {
                if !scope.iter().any(|(p2, _)| *p2 == pre) { scope.push((pre, *ns)); }
            }
        }
        if !scope.iter().any(|(p2, _)| *p2 == xmlp) { scope.push((xmlp, xmlns)); }
        for pre in [empty, p, q, xmlp] {
            let want = scope.iter().find(|(p2, _)| *p2 == pre).map(|(_, n)| *n).filter(|n| *n != ns_ids[0]);
            let got = xot.namespace_for_prefix(*node, pre);
            if got != want { return Some(format!("layout {} node {}: namespace_for_prefix({:?}) = {:?}, nearest-declaration-wins gives {:?}", input, depth, xot.prefix_str(pre), got.map(|n| xot.namespace_str(n).to_string()), want.map(|n| xot.namespace_str(n).to_string()))); }
            let defined = scope.iter().any(|(p2, _)| *p2 == pre);
            if xot.is_prefix_defined(*node, pre) != defined { return Some(format!("layout {} node {}: is_prefix_defined({:?}) = {}, expected {}", input, depth, xot.prefix_str(pre), !defined, defined)); }
        }
        for ns in [ns_ids[1], ns_ids[2], xmlns] {
            let got = xot.prefix_for_namespace(*node, ns);
            let exists = scope.iter().any(|(_, n)| *n == ns);
            match got {
                Some(pre) => { if !scope.iter().any(|(p2, n)| *p2 == pre && *n == ns) { return Some(format!("layout {} node {}: prefix_for_namespace({:?}) = {:?}, which is not bound to it in scope", input, depth, xot.namespace_str(ns), xot.prefix_str(pre))); } }
                None => { if exists { return Some(format!("layout {} node {}: prefix_for_namespace({:?}) = None although a prefix is bound to it in scope", input, depth, xot.namespace_str(ns))); } }
            }
        }
    }
    None
}

// (C13) shallow_equal_ignore_attributes against "attribute maps equal after removing the ignored names (as a set)"
#[allow(dead_code)]
fn c13_shallow(input: &str) -> Option<String> {
    // input: "A|B|I": attributes of a, of b as letters with values like x1y2, ignore list as letters (repeats allowed)
    let f: Vec<&str> = input.split('|').collect();
    if f.len() != 3 { return None; }
    let mut xot = Xot::new();
    let e = xot.add_name("e");
    let mk = |xot: &mut Xot, spec: &str| -> Option<xot::Node> {
        let el = xot.new_element(e);
        let cs: Vec<char> = spec.chars().collect();
        let mut k = 0;
        while k + 1 < cs.len() {
            let n = xot.add_name(&cs[k].to_string());
            xot.attributes_mut(el).insert(n, cs[k + 1].to_string());
            k += 2;
        }
        Some(el)
    };
    let a = mk(&mut xot, f[0])?;
    let b = mk(&mut xot, f[1])?;
    let ignore: Vec<xot::NameId> = f[2].chars().map(|c| xot.add_name(&c.to_string())).collect();
    let filt = |xot: &Xot, n: xot::Node| -> Vec<(xot::NameId, String)> {
        let mut v: Vec<(xot::NameId, String)> = xot.attributes(n).iter().filter(|(k, _)| !ignore.contains(k)).map(|(k, v)| (k, v.clone())).collect();
        v.sort();
        v
    };
    let want = filt(&xot, a) == filt(&xot, b);
    let got = std::panic::catch_unwind(std::panic::AssertUnwindSafe(|| xot.shallow_equal_ignore_attributes(a, b, &ignore)));
    match got {
        Err(_) => Some(format!("shallow_equal_ignore_attributes panics for a={:?} b={:?} ignore={:?}", f[0], f[1], f[2])),
        Ok(g) => if g != want { Some(format!("a={:?} b={:?} ignore={:?}: returned {}, attribute maps minus the ignored set are {}", f[0], f[1], f[2], g, if want { "equal" } else { "different" })) } else { None },
    }
}

// (C18) remove_insignificant_whitespace called on every subtree of small documents with xml:space attributes, against
// the property's definition evaluated independently on the tree before the call
#[allow(dead_code)]
fn c18_strip_scope(input: &str) -> Option<String> {
    let f: Vec<&str> = input.split('|').collect();
    if f.len() != 2 { return None; }
    let doc = f[0];
    let start: usize = f[1].parse().ok()?;
    let mut xot = Xot::new();
    let root = xot.parse(doc).ok()?;
    let elements: Vec<_> = xot.descendants(root).filter(|n| xot.is_element(*n)).collect();
    let start_node = *elements.get(start)?;
    let space = xot.xml_space_name();
    let is_ws = |t: &str| t.chars().all(|c| c == ' ' || c == '\t' || c == '\r' || c == '\n');
    // expected removals among the text nodes below start_node
    let texts: Vec<_> = xot.descendants(start_node).filter(|n| xot.is_text(*n)).collect();
    let mut expect_removed = Vec::new();
    for t in &texts {
        let txt = xot.text_str(*t).unwrap();
        let mut preserve = false;
        for anc in xot.ancestors(*t) {
            if xot.is_element(anc) {
                if let Some(v) = xot.attributes(anc).get(space) { preserve = v == "preserve"; break; }
            }
        }
        let parent = xot.parent(*t).unwrap();
        let sibling_content = xot.children(parent).any(|c| c != *t && xot.text_str(c).map(|s| !is_ws(s)).unwrap_or(false));
        expect_removed.push(is_ws(txt) && !preserve && !sibling_content);
    }
    let before_all: Vec<_> = xot.descendants(root).collect();
    xot.remove_insignificant_whitespace(start_node);
    for (t, exp) in texts.iter().zip(expect_removed.iter()) {
        if xot.is_removed(*t) != *exp {
            return Some(format!("{:?}, called on element #{}: a text node is {} but the definition says {}", doc, start, if xot.is_removed(*t) { "removed" } else { "kept" }, if *exp { "remove" } else { "keep" }));
        }
    }
    for n in before_all { if !texts.contains(&n) && xot.is_removed(n) { return Some(format!("{:?}, called on element #{}: a node that is not a text node below the start node was removed", doc, start)); } }
    None
}
