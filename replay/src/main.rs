//! Witness search and replay against the real xot crate (path dependency on /repo).
//!
//! `replay search <target> <small|large>` enumerates small inputs for the contract family `target`,
//! runs the real code, and evaluates an executable mirror of the postcondition.  The first violating
//! input is printed as `WITNESS <json>`.  `replay replay '<json>'` re-executes one witness and exits 1
//! if it still violates.  The enumerators never decide a property; they only attach a concrete input to
//! an obligation the verifier has already failed.
use std::panic;
use xot::output::xml::Parameters;
use xot::output::Indentation;
use xot::Xot;

fn strings(alphabet: &[char], max_len: usize) -> Vec<String> {
    let mut out = vec![String::new()];
    let mut frontier = vec![String::new()];
    for _ in 0..max_len {
        let mut next = Vec::new();
        for s in &frontier {
            for c in alphabet {
                let mut t = s.clone();
                t.push(*c);
                next.push(t);
            }
        }
        out.extend(next.iter().cloned());
        frontier = next;
    }
    out
}

const CRIT: &[char] = &['\t', '\n', '\r', ' ', '&', '<', '>', '\'', '"', ']', ';', '#', 'x', 'a', '\u{10000}'];

fn json_str(s: &str) -> String {
    let mut o = String::from("\"");
    for c in s.chars() {
        match c {
            '"' => o.push_str("\\\""),
            '\\' => o.push_str("\\\\"),
            '\n' => o.push_str("\\n"),
            '\r' => o.push_str("\\r"),
            '\t' => o.push_str("\\t"),
            c if (c as u32) < 0x20 => o.push_str(&format!("\\u{:04x}", c as u32)),
            c => o.push(c),
        }
    }
    o.push('"');
    o
}

fn witness(target: &str, input: &str, detail: &str) -> String {
    format!("{{\"target\":{},\"input\":{},\"detail\":{}}}", json_str(target), json_str(input), json_str(detail))
}

/// Some(detail) if the input violates the mirrored postcondition
fn eval(target: &str, input: &str) -> Option<String> {
    let r = panic::catch_unwind(|| eval_inner(target, input));
    match r {
        Ok(v) => v,
        Err(_) => Some("panic".to_string()),
    }
}

fn eval_inner(target: &str, input: &str) -> Option<String> {
    match target {
        // text node content survives to_string -> parse
        "text_roundtrip" | "text_roundtrip_gt" => {
            if input.is_empty() {
                return None;
            }
            let mut xot = Xot::new();
            let a = xot.add_name("a");
            let el = xot.new_element(a);
            let t = xot.new_text(input);
            xot.append(el, t).unwrap();
            let params = Parameters { unescaped_gt: target == "text_roundtrip_gt", ..Default::default() };
            let s = xot.serialize_xml_string(params, el).unwrap();
            let mut xot2 = Xot::new();
            match xot2.parse(&s) {
                Err(e) => Some(format!("serialised as {:?}, reparse failed: {:?}", s, e)),
                Ok(root) => {
                    let de = xot2.document_element(root).unwrap();
                    let got = xot2.string_value(de);
                    if got != input { Some(format!("serialised as {:?}, read back as {:?}", s, got)) } else { None }
                }
            }
        }
        "attr_roundtrip" => {
            let mut xot = Xot::new();
            let a = xot.add_name("a");
            let b = xot.add_name("b");
            let el = xot.new_element(a);
            xot.attributes_mut(el).insert(b, input.to_string());
            let s = xot.to_string(el).unwrap();
            let mut xot2 = Xot::new();
            match xot2.parse(&s) {
                Err(e) => Some(format!("serialised as {:?}, reparse failed: {:?}", s, e)),
                Ok(root) => {
                    let de = xot2.document_element(root).unwrap();
                    let b2 = xot2.add_name("b");
                    let got = xot2.attributes(de).get(b2).cloned();
                    if got.as_deref() != Some(input) { Some(format!("serialised as {:?}, read back as {:?}", s, got)) } else { None }
                }
            }
        }
        "cdata_roundtrip" => {
            if input.is_empty() {
                return None;
            }
            let mut xot = Xot::new();
            let a = xot.add_name("a");
            let el = xot.new_element(a);
            let t = xot.new_text(input);
            xot.append(el, t).unwrap();
            let params = Parameters { cdata_section_elements: vec![a], ..Default::default() };
            let s = xot.serialize_xml_string(params, el).unwrap();
            let mut xot2 = Xot::new();
            match xot2.parse(&s) {
                Err(e) => Some(format!("serialised as {:?}, reparse failed: {:?}", s, e)),
                Ok(root) => {
                    let de = xot2.document_element(root).unwrap();
                    let got = xot2.string_value(de);
                    // the parser is expected to normalise line ends inside CDATA; compare with the line-end-free reading
                    if got != input { Some(format!("serialised as {:?}, read back as {:?}", s, got)) } else { None }
                }
            }
        }
        // input: an XML document; indentation must not add whitespace inside mixed content / preserve scope
        "pretty_scope" => {
            // input: "<doc>" or "S:<doc>" (S: the element `a` is on the suppress list)
            let (suppress_a, doc) = match input.strip_prefix("S:") { Some(d) => (true, d), None => (false, input) };
            let mut xot = Xot::new();
            let a_name = xot.add_name("a");
            let root = xot.parse(doc).ok()?;
            let params = Parameters { indentation: Some(Indentation { suppress: if suppress_a { vec![a_name] } else { vec![] } }), ..Default::default() };
            let s = xot.serialize_xml_string(params, root).unwrap();
            let mut xot2 = Xot::new();
            let root2 = match xot2.parse(&s) {
                Ok(r) => r,
                Err(e) => return Some(format!("pretty output {:?} does not reparse: {:?}", s, e)),
            };
            let a2 = xot2.add_name("a");
            // the reparse is the original plus added whitespace-only text nodes; nothing is added inside an element that has
            // text children (of any content), inside xml:space="preserve" scope or inside a suppressed element
            fn head(xot: &Xot, n: xot::Node) -> String { if xot.is_document(n) { return "D".into(); } let c = deepeq::canon(xot, n, false); if xot.is_element(n) { c.split('[').next().unwrap_or("").to_string() } else { c } }
            // flags inherited from above: inside preserve scope / inside a suppressed element / inside mixed content
            fn cmp(xo: &Xot, o: xot::Node, xr: &Xot, r: xot::Node, preserve: bool, suppressed: bool, mixed: bool, sup_o: Option<xot::NameId>) -> Option<String> {
                if head(xo, o) != head(xr, r) { return Some(format!("a node changed: {} became {}", head(xo, o), head(xr, r))); }
                if !xo.is_element(o) && !xo.is_document(o) { return None; }
                let space = xo.xml_space_name();
                let preserve = match xo.attributes(o).get(space) { Some(v) => v == "preserve", None => preserve };
                let suppressed = suppressed || xo.element(o).map(|e| Some(e.name()) == sup_o).unwrap_or(false);
                let ok: Vec<xot::Node> = xo.children(o).collect();
                let mixed = mixed || ok.iter().any(|c| xo.is_text(*c));
                let nothing_added = preserve || suppressed || mixed;
                let rk_all: Vec<xot::Node> = xr.children(r).collect();
                let rk: Vec<xot::Node> = if nothing_added { rk_all } else { rk_all.into_iter().filter(|c| !xr.text_str(*c).map(|t| t.chars().all(|ch| ch == ' ' || ch == '\n')).unwrap_or(false)).collect() };
                if rk.len() != ok.len() {
                    return Some(format!("inside {} ({}) the children are no longer the original ones{}: {} became {} nodes", head(xo, o),
                        if mixed { "mixed content: an element with text children, or below one" } else if preserve { "xml:space=preserve scope" } else if suppressed { "a suppressed element" } else { "element-only content" },
                        if nothing_added { "" } else { " plus whitespace-only text nodes" }, ok.len(), rk.len()));
                }
                for (a, b) in ok.iter().zip(rk.iter()) { if let Some(w) = cmp(xo, *a, xr, *b, preserve, suppressed, mixed, sup_o) { return Some(w); } }
                None
            }
            let _ = a2;
            if let Some(why) = cmp(&xot, root, &xot2, root2, false, false, false, if suppress_a { Some(a_name) } else { None }) {
                return Some(format!("pretty output {:?} of {:?}: {}", s, doc, why));
            }
            None
        }
        "html_fold" => {
            // the escapers must work on what the normalizer returns: fullwidth < & > " ' are folded onto ASCII (as NFKC does)
            struct Fold;
            impl xot::output::Normalizer for Fold {
                fn normalize<'a>(&self, content: std::borrow::Cow<'a, str>) -> std::borrow::Cow<'a, str> {
                    if !content.chars().any(|c| ('\u{ff01}'..='\u{ff5e}').contains(&c)) { return content; }
                    content.chars().map(|c| if ('\u{ff01}'..='\u{ff5e}').contains(&c) { char::from_u32(c as u32 - 0xfee0).unwrap() } else { c }).collect::<String>().into()
                }
            }
            let mut xot = Xot::new();
            let p = xot.add_name("p"); let title = xot.add_name("title");
            let el = xot.new_element(p);
            xot.attributes_mut(el).insert(title, input.to_string());
            let t = xot.new_text(input); xot.append(el, t).ok()?;
            let s = xot.html5().serialize_string_with_normalizer(Default::default(), el, Fold).ok()?;
            let rest = s.strip_prefix("<!DOCTYPE html><p title=\"")?;
            let close = rest.find("\">")?;
            let (attr, body) = (&rest[..close], rest[close + 2..].strip_suffix("</p>")?);
            if attr.contains('"') { return Some(format!("with a folding normalizer: raw '\"' in the attribute value of {:?}", s)); }
            for (what, part, allow_lt) in [("attribute value", attr, true), ("text", body, false)] {
                if !allow_lt && part.contains('<') { return Some(format!("with a folding normalizer: raw '<' in the {} of {:?}", what, s)); }
                let mut r = part;
                while let Some(i) = r.find('&') {
                    let tail = &r[i..];
                    if !(tail.starts_with("&amp;") || tail.starts_with("&lt;") || tail.starts_with("&gt;") || tail.starts_with("&nbsp;") || tail.starts_with("&quot;") || tail.starts_with("&apos;") || tail.starts_with("&#")) { return Some(format!("with a folding normalizer: raw '&' in the {} of {:?}", what, s)); }
                    r = &r[i + 1..];
                }
            }
            None
        }
        "html_text" => {
            if input.is_empty() {
                return None;
            }
            let mut xot = Xot::new();
            let p = xot.add_name("p");
            let el = xot.new_element(p);
            let t = xot.new_text(input);
            xot.append(el, t).unwrap();
            let s = xot.html5().to_string(el).unwrap();
            let body = s.strip_prefix("<!DOCTYPE html><p>")?.strip_suffix("</p>")?;
            if body.contains('<') { return Some(format!("raw '<' from text in {:?}", s)); }
            let mut rest = body;
            while let Some(i) = rest.find('&') {
                let tail = &rest[i..];
                if !(tail.starts_with("&amp;") || tail.starts_with("&lt;") || tail.starts_with("&gt;") || tail.starts_with("&nbsp;")) {
                    return Some(format!("raw '&' from text in {:?}", s));
                }
                rest = &rest[i + 1..];
            }
            None
        }
        "html_attr" => {
            let mut xot = Xot::new();
            let p = xot.add_name("p");
            let title = xot.add_name("title");
            let el = xot.new_element(p);
            xot.attributes_mut(el).insert(title, input.to_string());
            let s = xot.html5().to_string(el).unwrap();
            let body = s.strip_prefix("<!DOCTYPE html><p title=\"")?.strip_suffix("\"></p>")?;
            if body.contains('"') { return Some(format!("raw '\"' in attribute value in {:?}", s)); }
            let mut rest = body;
            while let Some(i) = rest.find('&') {
                let tail = &rest[i..];
                if !(tail.starts_with("&amp;") || tail.starts_with("&lt;") || tail.starts_with("&gt;") || tail.starts_with("&nbsp;") || tail.starts_with("&quot;") || tail.starts_with("&apos;")) {
                    return Some(format!("raw '&' in attribute value in {:?}", s));
                }
                rest = &rest[i + 1..];
            }
            None
        }
        // XHTML namespace must be the W3C one: an element in it is written unprefixed
        "xhtml_ns" => {
            let mut xot = Xot::new();
            let root = xot.parse(input).ok()?;
            let s = xot.html5().to_string(root).unwrap();
            if s.contains("<h:") { Some(format!("element in the XHTML namespace written prefixed: {:?}", s)) } else { None }
        }
        // whitespace stripping: a text node of non-XML whitespace must survive
        "strip_ws" => {
            if input.is_empty() {
                return None;
            }
            // "A:<ws>" / "B:<ws>": with consolidation off the text node stands directly before / behind a text node with content
            if let Some((side, ws)) = input.split_once(':') {
                if ws.is_empty() || (side != "A" && side != "B") { return None; }
                let mut xot = Xot::new();
                xot.set_text_consolidation(false);
                let a = xot.add_name("a"); let b = xot.add_name("b");
                let el = xot.new_element(a); let c1 = xot.new_element(b);
                let t = xot.new_text(ws); let content = xot.new_text("x");
                xot.append(el, c1).unwrap();
                if side == "A" { xot.append(el, t).unwrap(); xot.append(el, content).unwrap(); } else { xot.append(el, content).unwrap(); xot.append(el, t).unwrap(); }
                xot.remove_insignificant_whitespace(el);
                return if xot.is_removed(t) || xot.is_removed(content) { Some(format!("text {:?} directly {} a sibling text node with content (consolidation off): a text node was removed although a sibling text node has other content", ws, if side == "A" { "in front of" } else { "behind" })) } else { None };
            }
            let mut xot = Xot::new();
            let a = xot.add_name("a");
            let b = xot.add_name("b");
            let el = xot.new_element(a);
            let c1 = xot.new_element(b);
            let t = xot.new_text(input);
            let c2 = xot.new_element(b);
            xot.append(el, c1).unwrap();
            xot.append(el, t).unwrap();
            xot.append(el, c2).unwrap();
            xot.remove_insignificant_whitespace(el);
            let removed = xot.is_removed(t);
            let xml_ws = input.chars().all(|c| c == ' ' || c == '\t' || c == '\r' || c == '\n');
            if removed != xml_ws { Some(format!("text {:?}: removed={} but xml-whitespace-only={}", input, removed, xml_ws)) } else { None }
        }
        // xml:id normalisation: value -> tokens joined by one space
        "xml_id" => {
            if input.contains(|c| c == '<' || c == '"') {
                return None;
            }
            // input: literal characters, with T / N / R standing for the references &#9; / &#xA; / &#xD;
            if input.contains('&') { return None; }
            let mut written = String::new(); let mut value = String::new();
            for c in input.chars() { match c {
                'T' => { written.push_str("&#9;"); value.push('\t'); }
                'N' => { written.push_str("&#xA;"); value.push('\n'); }
                'R' => { written.push_str("&#xD;"); value.push('\r'); }
                // literal TAB (LF, CR) is turned into a space by attribute-value normalisation before xml:id normalisation
                '\t' | '\n' | '\r' => { written.push(c); value.push(' '); }
                c => { written.push(c); value.push(c); } } }
            // xml:id normalisation: leading / trailing spaces go, runs of spaces collapse; nothing else is whitespace here
            let expected: Vec<&str> = value.split(' ').filter(|t| !t.is_empty()).collect();
            let expected = expected.join(" ");
            if expected.is_empty() {
                return None;
            }
            let doc = format!("<a xml:id=\"{}\"/>", written);
            let mut xot = Xot::new();
            let root = xot.parse(&doc).ok()?;
            let el = xot.document_element(root).ok()?;
            let stored = xot.attributes(el).get(xot.xml_id_name()).cloned();
            if stored.as_deref() != Some(expected.as_str()) { return Some(format!("{:?}: the xml:id value is stored as {:?}, normalisation gives {:?}", doc, stored, expected)); }
            match xot.xml_id_node(root, &expected) {
                Some(_) => None,
                None => Some(format!("{:?}: xml_id_node({:?}) finds nothing", doc, expected)),
            }
        }
        "default_ns" => c10_default_ns_witness(),
        "qname_default_ns" => c09_qname_default_ns(),
        "fixed_doc" => c20_fixed_doc(input),
        "arena_conformance" => arenaconf::check(input),
        "missing_prefixes" => c10_missing_prefixes(input),
        "html_tree" => htmltree::check(input),
        "nav_axes" => navaxes::check(input),
        "id_tables" => c08_id_tables(input),
        "node_map" => c11_node_map(input),
        "deep_equal" => deepeq::check(input),
        "three_routes" => routes::check(input),
        "strip_scope" => c18_strip_scope(input),
        "shallow_ignore" => c13_shallow(input),
        "scope_queries" => c09_scope(input),
        "ns_layout" => bounded::ns_layout(input),
        "char_ref" => bounded::char_ref(input),
        "wf_reject" => bounded::wf_reject(input),
        "ns_scope" => nsscope::check(input),
        "bytes_enc" => c02_bytes_enc(input),
        "err_paths" => c06_err_paths(input),
        "detached_names" => c09_detached_names(input),
        "line_ends" => bounded::line_ends(input),
        "level_order" => bounded::level_order(input),
        "tree_ops" => {
            // "<shape> <cons> <op> <x> <y>[;<op> <x> <y>]..."
            let mut it = input.splitn(3, ' ');
            let (shape, cons, rest) = (it.next()?, it.next()?, it.next()?);
            treeops::run(shape.parse().ok()?, cons == "1", &treeops::parse_steps(rest)?)
        }
        _ => Some(format!("unknown target {}", target)),
    }
}

fn inputs(target: &str, large: bool) -> Vec<String> {
    match target {
        "pretty_scope" => {
            let mut v = Vec::new();
            let spaces = ["", " xml:space=\"preserve\"", " xml:space=\"default\""];
            for s1 in spaces {
                for s2 in spaces {
                    for s3 in spaces {
                        v.push(format!("<doc{}><a{}><b{}><c/></b></a></doc>", s1, s2, s3));
                        v.push(format!("<doc{}><a{}>text<b{}><c/></b></a></doc>", s1, s2, s3));
                        v.push(format!("<doc{}><a{}><b{}><c/><!--x--></b><d/></a></doc>", s1, s2, s3));
                        // deeper: element-only content below an element inside mixed content / inside a suppressed element
                        v.push(format!("<doc{}><p{}>Hello <b{}><c><d/></c></b> world</p></doc>", s1, s2, s3));
                        v.push(format!("S:<doc{}><a{}><b{}><c><d/></c></b></a><e><f/></e></doc>", s1, s2, s3));
                        v.push(format!("S:<doc{}><e{}><a><b{}><c/></b></a></e></doc>", s1, s2, s3));
                        // text children that are whitespace only are text children too
                        v.push(format!("<doc{}><a{}> </a><p{}><i/> <i/></p><q><r/></q></doc>", s1, s2, s3));
                    }
                }
            }
            v
        }
        "tree_ops" => {
            // every single call; then (thorough) every sequence of two calls
            let mut calls = Vec::new();
            for op in ["append", "prepend", "insert_after", "insert_before", "any_append", "replace", "detach", "remove", "wrap", "unwrap", "new_doc", "attr_set", "attr_del", "ns_set", "ns_del"] {
                for x in 0..treeops::max_nodes() {
                    for y in 0..treeops::max_nodes() {
                        if (op == "detach" || op == "remove" || op == "wrap" || op == "unwrap" || op == "new_doc") && y != 0 { continue; }
                        if (op.starts_with("attr_") || op.starts_with("ns_")) && y > 2 { continue; }
                        calls.push(format!("{} {} {}", op, x, y));
                    }
                }
            }
            let mut v = Vec::new();
            for shape in 0..treeops::shapes() {
                for cons in ["1", "0"] {
                    for c in &calls { v.push(format!("{} {} {}", shape, cons, c)); }
                }
            }
            // quick tier: two-call sequences on the two forests with namespace and attribute nodes only
            for shape in if large { 0..treeops::shapes() } else { 4..treeops::shapes() } {
                for cons in if large { vec!["1", "0"] } else { vec!["1"] } {
                    for c in &calls { for d in &calls { v.push(format!("{} {} {};{}", shape, cons, c, d)); } }
                }
            }
            v
        }
        "ns_layout" => bounded::ns_layouts(),
        "arena_conformance" => arenaconf::inputs(),
        "missing_prefixes" => {
            let decls = ["", "0", "1", "p", "01", "0p"];
            let steps = ['x', 'y', 'z', 'a', 'v', 'c', 'e'];
            let mut seqs: Vec<String> = vec![String::new()];
            let mut frontier = seqs.clone();
            for _ in 0..(if large { 6 } else { 5 }) { let mut next = Vec::new(); for s in &frontier { for k in steps { next.push(format!("{}{}", s, k)); } } seqs.extend(next.iter().cloned()); frontier = next; }
            seqs.retain(|s| s.ends_with('c') || s.ends_with('e'));
            let mut v = Vec::new();
            // one expanded name used twice: inside the scope of the declaration it relies on and outside it, as element and as attribute
            // the xml prefix and the XML namespace: in use without declaration, repaired, bound to something else
            for k in 0..10 { v.push(format!("X|{}", k)); }
            for d in ["p", "d"] { for second in ["eo", "ei", "ao", "ai", "an"] { for order in ["after", "before"] { for target in ["root", "r"] { v.push(format!("N|{}|{}|{}|{}", d, second, order, target)); } } } }
            for a in decls { for m in decls { for s in &seqs { v.push(format!("{}|{}|{}", a, m, s)); } } }
            v
        }
        "html_tree" => htmltree::inputs(large),
        "nav_axes" => navaxes::inputs(),
        "id_tables" => { let mut v = Vec::new(); for n in [1usize, 2, 7, 20, 41, 64, 150] { for stride in [1usize, 3, 7] { for via in ["api", "parse"] { v.push(format!("{} {} {}", n, stride, via)); } } } if large { v.push("700 11 api".into()); v.push("700 13 parse".into()); } v }
        "node_map" => {
            let ops = ['i', 'r', 'u', 'n', 'm', 'o', 'c', 'e'];
            let mut seqs: Vec<String> = vec![String::new()];
            let mut frontier = seqs.clone();
            for _ in 0..(if large { 5 } else { 4 }) {
                let mut next = Vec::new();
                for s in &frontier { for o in ops { for k in 0..(if o == 'c' { 1 } else { 3 }) { next.push(format!("{}{}{}", s, o, k)); } } }
                seqs.extend(next.iter().cloned());
                frontier = next;
            }
            seqs.retain(|s| !s.is_empty());
            seqs
        }
        "deep_equal" => deepeq::inputs(),
        "three_routes" => routes::inputs(large),
        "char_ref" => bounded::ref_strings(large),
        "wf_reject" => bounded::wf_inputs(),
        "ns_scope" => nsscope::inputs(large),
        "detached_names" => { let mut v = Vec::new(); for k in ["space", "lang", "id", "plain"] { for how in ["fresh", "detached", "removed_parent"] { v.push(format!("{}|{}", k, how)); } } v }
        "err_paths" => { let mut v = Vec::new(); for op in ["append", "prepend", "insert_after", "insert_before", "replace", "wrap", "unwrap", "any_append", "append_text", "append_element", "append_comment", "append_pi", "attr_node", "ns_node"] { for kind in ["text", "comment", "pi", "attr", "ns", "doc"] { for ch in ['x', '\u{e9}', '\u{20ac}', '\u{1f600}'] { for n in [1usize, 13, 39, 40, 41, 64, 200] { v.push(format!("{}|{}|{}|{}", op, kind, ch, n)); } } } } v }
        "bytes_enc" => { let mut v = Vec::new(); for e in ["utf8", "utf8bom", "utf16le", "utf16be", "utf16lebom", "utf16bebom", "latin1", "cp1252"] { for d in 0..6 { for decl in 0..2 { v.push(format!("{}|{}|{}", e, d, decl)); } } } v }
        "line_ends" => bounded::line_end_inputs(large),
        "level_order" => { let mut v = Vec::new(); for d in 0..3 { for n in 0..12 { v.push(format!("{} {}", d, n)); } } v }
        "scope_queries" => {
            let decls = ["", "d1", "d2", "d0", "p1", "p2", "q1", "q2", "d1p1", "p1q1", "q1p1", "p2q1", "d0p1", "d2p1", "p1q2"];
            let mut v = Vec::new();
            for a in decls { for b in decls { for c in decls { v.push(format!("{}|{}|{}", a, b, c)); } } }
            v
        }
        "shallow_ignore" => {
            let sets = ["", "x1", "x2", "y1", "x1y1", "x1y2", "y1x1", "x1y1z1"];
            let ign = ["", "x", "y", "xx", "xy", "yx", "xxy", "z", "xyz", "zz"];
            let mut v = Vec::new();
            for a in sets { for b in sets { for i in ign { v.push(format!("{}|{}|{}", a, b, i)); } } }
            v
        }
        "strip_scope" => {
            let sp = ["", " xml:space=\"preserve\"", " xml:space=\"default\""];
            let mut v = Vec::new();
            for a in sp { for b in sp { for c in sp {
                let docs = [
                    format!("<d{}><p{}>  <b{}>x</b>  </p><q>  </q></d>", a, b, c),
                    format!("<d{}> <p{}> t <b{}> </b></p>{}</d>", a, b, c, '\u{a0}'),
                    format!("<d{}><p{}><b{}>  </b><!--c-->  </p></d>", a, b, c),
                    // fragments: text directly under the document node
                    format!("F:  <d{}> <p{}> </p></d>\n<q{}> </q> ", a, b, c),
                    format!("F: <d{}><p{}>x</p> </d> t <q{}> </q>", a, b, c),
                ];
                // every ordinary node of the tree as start node (at most 12 per shape)
                for d in docs { for start in 0..12 { v.push(format!("{}|{}", d, start)); } }
            }}}
            v
        }
        "fixed_doc" => { let mut v = Vec::new(); for b in 0..4 { for a in 0..4 { v.push(format!("{} {}", b, a)); } } v }
        "default_ns" => vec!["<a xmlns=\"u\"/> + append(new element b in no namespace)".to_string()],
        "qname_default_ns" => vec!["<a xmlns=\"u\"/> + append(new element b in no namespace); full_name(b)".to_string()],
        "xhtml_ns" => vec!["<h:p xmlns:h=\"http://www.w3.org/1999/xhtml\"><h:br/></h:p>".to_string()],
        "text_roundtrip_gt" | "cdata_roundtrip" => {
            // bracket / '>' runs first (the ]]> guard and the CDATA splitter), then the general alphabet
            let mut v = strings(&[']', '>', 'x'], if large { 7 } else { 6 });
            // the same runs behind / around a two-byte and a four-byte character (code that mixes up character and byte positions)
            v.extend(strings(&[']', '>', '\u{e9}', '\u{1f600}'], if large { 6 } else { 5 }));
            v.extend(strings(CRIT, if large { 4 } else { 3 }));
            v
        }
        "html_fold" => strings(&['\u{ff1c}', '\u{ff06}', '\u{ff02}', '\u{ff1e}', '\u{ff07}', 'x', '&', '<', '"'], if large { 4 } else { 3 }),
        "strip_ws" => { let mut v = strings(&[' ', '\t', '\n', '\r', '\u{a0}', '\u{2003}', 'x'], if large { 4 } else { 3 });
            for ws in strings(&[' ', '\t', '\n', '\r'], 2) { if !ws.is_empty() { v.push(format!("A:{}", ws)); v.push(format!("B:{}", ws)); } }
            v }
        "xml_id" => { let mut v = strings(&[' ', 'x', 'y', '\t'], if large { 7 } else { 5 });
            v.extend(strings(&[' ', 'x', 'T', 'N', 'R', '\u{a0}', '\u{3000}', '\u{2003}'], if large { 5 } else { 4 }));
            v }
        _ => {
            let mut v = strings(CRIT, if large { 4 } else { 3 });
            // a character with a special meaning in front of / behind every printable ASCII character and a few others
            let mut others: Vec<char> = (0x20u8..0x7f).map(|b| b as char).collect();
            others.extend(['\u{a0}', '\u{e9}', '\u{2028}', '\u{1f600}']);
            for sp in ['&', '<', '>', '"', '\'', ']', '\u{a0}'] {
                for o in &others {
                    v.push(format!("{}{}", sp, o));
                    v.push(format!("{}{}", o, sp));
                    v.push(format!("x{}{}y", sp, o));
                    v.push(format!("{}{}{}", sp, o, sp));
                }
            }
            v
        }
    }
}

fn main() {
    panic::set_hook(Box::new(|_| {}));
    let args: Vec<String> = std::env::args().collect();
    if args.len() >= 4 && args[1] == "search" {
        let target = &args[2];
        let large = args[3] == "large";
        let ins = inputs(target, large);
        // all cores; the reported witness is the first one in enumeration order, so the result is deterministic
        let workers = std::thread::available_parallelism().map(|n| n.get()).unwrap_or(4).min(16);
        let best = std::sync::atomic::AtomicUsize::new(usize::MAX);
        let found: std::sync::Mutex<Option<(usize, String)>> = std::sync::Mutex::new(None);
        std::thread::scope(|sc| {
            for w in 0..workers {
                let (ins, best, found) = (&ins, &best, &found);
                sc.spawn(move || {
                    let mut k = w;
                    while k < ins.len() && k < best.load(std::sync::atomic::Ordering::Relaxed) {
                        if let Some(d) = eval(target, &ins[k]) {
                            let mut f = found.lock().unwrap();
                            if f.as_ref().map(|(j, _)| k < *j).unwrap_or(true) { *f = Some((k, d)); best.fetch_min(k, std::sync::atomic::Ordering::Relaxed); }
                            break;
                        }
                        k += workers;
                    }
                });
            }
        });
        match found.into_inner().unwrap() {
            Some((k, d)) => { println!("SEARCHED {}", k + 1); println!("WITNESS {}", witness(target, &ins[k], &d)); }
            None => { println!("SEARCHED {}", ins.len()); println!("NONE"); }
        }
    } else if args.len() >= 4 && args[1] == "all" {
        // dev helper: every failing input, not just the first
        for i in inputs(&args[2], args[3] == "large") { if let Some(d) = eval(&args[2], &i) { println!("{} => {}", i, d.chars().take(260).collect::<String>()); } }
    } else if args.len() >= 4 && args[1] == "eval" {
        // replay eval <target> <input>
        match eval(&args[2], &args[3]) {
            Some(d) => {
                println!("VIOLATES: {}", d);
                std::process::exit(1);
            }
            None => println!("holds"),
        }
    } else {
        eprintln!("usage: replay search <target> <small|large> | replay eval <target> <input>");
        std::process::exit(2);
    }
}

// =============================================================================================
// tree operations: an independent ordered-tree reference model (the model of contracts/U9_manip.vc written
// out executably) run side by side with the real crate on small forests and all (operation, node, node) pairs
mod treeops {
    use std::panic;
    use xot::{Node, Xot};

    #[derive(Clone, Debug, PartialEq)]
    pub enum Kind { Doc, Elem(&'static str), Text(String), Comment(String), Attr(&'static str, String), Ns(&'static str, &'static str) }

    #[derive(Clone, Debug)]
    pub struct M { pub kind: Vec<Kind>, pub parent: Vec<Option<usize>>, pub kids: Vec<Vec<usize>>, pub alive: Vec<bool>,
        /// the last operation is compared up to which text handle survives a merge (replace / wrap / unwrap)
        pub loose: bool }

    impl M {
        fn is_text(&self, n: usize) -> bool { matches!(self.kind[n], Kind::Text(_)) }
        /// 0 namespace node, 1 attribute node, 2 ordinary node
        fn cat(&self, n: usize) -> u8 { match self.kind[n] { Kind::Ns(..) => 0, Kind::Attr(..) => 1, _ => 2 } }
        fn normal(&self, n: usize) -> bool { self.cat(n) == 2 }
        fn text(&self, n: usize) -> String { if let Kind::Text(t) = &self.kind[n] { t.clone() } else { String::new() } }
        fn pos(&self, n: usize) -> usize { let p = self.parent[n].unwrap(); self.kids[p].iter().position(|x| *x == n).unwrap() }
        fn prev_same(&self, n: usize) -> Option<usize> {
            let p = self.parent[n]?; let i = self.pos(n); if i == 0 { return None; }
            let m = self.kids[p][i - 1]; if self.cat(m) == self.cat(n) { Some(m) } else { None } }
        fn next_same(&self, n: usize) -> Option<usize> {
            let p = self.parent[n]?; let i = self.pos(n); let m = *self.kids[p].get(i + 1)?;
            if self.cat(m) == self.cat(n) { Some(m) } else { None } }
        fn is_anc_or_self(&self, a: usize, mut n: usize) -> bool { loop { if n == a { return true; } match self.parent[n] { Some(p) => n = p, None => return false } } }
        fn detach_raw(&mut self, n: usize) { if let Some(p) = self.parent[n] { let i = self.pos(n); self.kids[p].remove(i); self.parent[n] = None; } }
        fn kill(&mut self, n: usize) { self.detach_raw(n); let ks = self.kids[n].clone(); for k in ks { self.parent[k] = None; self.kill(k); } self.kids[n].clear(); self.alive[n] = false; }
        fn merge(&mut self, a: usize, b: usize) { let t = self.text(a) + &self.text(b); self.kind[a] = Kind::Text(t); self.kill(b); }
        fn absorb(&mut self, c: usize, b: usize) { let t = self.text(c) + &self.text(b); self.kind[b] = Kind::Text(t); self.kill(c); }
        fn leave(&mut self, c: usize, cons: bool) {
            if let (Some(a), Some(b)) = (self.prev_same(c), self.next_same(c)) { if cons && self.is_text(a) && self.is_text(b) { self.merge(a, b); } } }
        fn may_adopt(&self, p: usize, c: usize) -> bool {
            matches!(self.kind[p], Kind::Elem(_) | Kind::Doc) && self.normal(c) && self.kind[c] != Kind::Doc && !self.is_anc_or_self(c, p) }
        fn last_normal(&self, p: usize) -> Option<usize> { let l = *self.kids[p].last()?; if self.normal(l) { Some(l) } else { None } }
        fn first_normal(&self, p: usize) -> Option<usize> { self.kids[p].iter().copied().find(|k| self.normal(*k)) }
        /// Ok(true) applied, Ok(false) refused (unchanged), Err = outside the proved domain (known finding)
        pub fn apply(&mut self, op: &str, x: usize, y: usize, cons: bool) -> Result<bool, ()> {
            match op {
                "detach" => { let (a, b) = (self.prev_same(x), self.next_same(x)); self.detach_raw(x);
                    if let (Some(a), Some(b)) = (a, b) { if cons && self.is_text(a) && self.is_text(b) { self.merge(a, b); } } Ok(true) }
                "remove" => { let (a, b) = (self.prev_same(x), self.next_same(x)); self.kill(x);
                    if let (Some(a), Some(b)) = (a, b) { if cons && self.is_text(a) && self.is_text(b) { self.merge(a, b); } } Ok(true) }
                "append" => { let (p, c) = (x, y); if !self.may_adopt(p, c) { return Ok(false); }
                    self.leave(c, cons);
                    match self.last_normal(p) { Some(a) if cons && a != c && self.is_text(c) && self.is_text(a) => self.merge(a, c),
                        _ => { self.detach_raw(c); self.kids[p].push(c); self.parent[c] = Some(p); } }
                    Ok(true) }
                // the node becomes the first ordinary child, behind the namespace and attribute nodes (C04);
                // a text node arriving in front of a text node is absorbed by it (C05 known finding: the later node survives)
                "prepend" => { let (p, c) = (x, y); if !self.may_adopt(p, c) { return Ok(false); }
                    self.leave(c, cons);
                    match self.first_normal(p) { Some(b) if cons && b != c && self.is_text(c) && self.is_text(b) => self.absorb(c, b),
                        _ => { self.detach_raw(c); let i = self.kids[p].iter().filter(|k| !self.normal(**k)).count(); self.kids[p].insert(i, c); self.parent[c] = Some(p); } }
                    Ok(true) }
                "insert_after" | "insert_before" => { let (r, c) = (x, y);
                    let p = match self.parent[r] { Some(p) => p, None => return Ok(false) };
                    if !self.normal(r) || r == c || !self.may_adopt(p, c) { return Ok(false); }
                    let after = op == "insert_after";
                    // a call asking for the position the node already occupies changes nothing (C05)
                    if (after && self.next_same(r) == Some(c)) || (!after && self.prev_same(r) == Some(c)) { return Ok(true); }
                    // the reference node may itself be the text node that is merged into its predecessor when c leaves:
                    // the merged node then stands in for it
                    let r = if cons && self.next_same(c) == Some(r) && self.prev_same(c).map(|a| self.is_text(a)).unwrap_or(false) && self.is_text(r) { self.prev_same(c).unwrap() } else { r };
                    self.leave(c, cons);
                    let in_place = false;
                    if cons && self.is_text(c) && !in_place {
                        let (a, b) = if after { (Some(r), self.next_same(r)) } else { (self.prev_same(r), Some(r)) };
                        if let Some(a) = a { if self.is_text(a) { self.merge(a, c); return Ok(true); } }
                        if let Some(b) = b { if self.is_text(b) { self.absorb(c, b); return Ok(true); } }
                    }
                    self.detach_raw(c); let i = self.pos(r) + if after { 1 } else { 0 }; self.kids[p].insert(i, c); self.parent[c] = Some(p);
                    Ok(true) }
                // replace: the targeted subtree is destroyed and the replacing node (leaving wherever it was) takes its place
                "replace" => { self.loose = true;
                    if self.kind[x] == Kind::Doc { return Ok(false); }
                    let p = match self.parent[x] { Some(p) => p, None => return Ok(false) };
                    if !self.normal(x) { return Ok(false); }
                    if !self.may_adopt(p, y) || self.is_anc_or_self(x, y) { return Ok(false); }
                    let old = self.parent[y];
                    self.detach_raw(y); let i = self.pos(x); self.kill(x); self.kids[p].insert(i, y); self.parent[y] = Some(p);
                    self.normalise(p, cons); if let Some(o) = old { if self.alive[o] { self.normalise(o, cons); } }
                    Ok(true) }
                // element_unwrap: exactly the wrapper goes (with its declarations and attributes), its children take its place in order
                "unwrap" => { self.loose = true;
                    if !matches!(self.kind[x], Kind::Elem(_)) { return Ok(false); }
                    let ks: Vec<usize> = self.kids[x].iter().copied().filter(|k| self.normal(*k)).collect();
                    if ks.is_empty() { return self.apply("remove", x, y, cons); }
                    let p = match self.parent[x] { Some(p) => p, None => return Ok(false) };
                    let i = self.pos(x);
                    for k in &ks { self.detach_raw(*k); }
                    self.kill(x);
                    for (j, k) in ks.iter().enumerate() { self.kids[p].insert(i + j, *k); self.parent[*k] = Some(p); }
                    self.normalise(p, cons);
                    Ok(true) }
                // element_wrap: exactly one new element, in the place of the node, with the node as its only child
                "wrap" => { self.loose = true;
                    if self.kind[x] == Kind::Doc || !self.normal(x) { return Ok(false); }
                    if let Some(p) = self.parent[x] { if self.kind[p] == Kind::Doc && !matches!(self.kind[x], Kind::Elem(_)) { return Ok(false); } }
                    let w = self.kind.len();
                    self.kind.push(Kind::Elem("w")); self.parent.push(None); self.kids.push(vec![x]); self.alive.push(true);
                    if let Some(p) = self.parent[x] { let i = self.pos(x); self.kids[p][i] = w; self.parent[w] = Some(p); }
                    self.parent[x] = Some(w);
                    Ok(true) }
                // new_document_with_element: a new document node adopts the element, which leaves wherever it was
                "new_doc" => { self.loose = true;
                    if !matches!(self.kind[x], Kind::Elem(_)) { return Ok(false); }
                    let old = self.parent[x];
                    let d = self.kind.len();
                    self.kind.push(Kind::Doc); self.parent.push(None); self.kids.push(vec![]); self.alive.push(true);
                    self.detach_raw(x); self.kids[d].push(x); self.parent[x] = Some(d);
                    if let Some(o) = old { if self.alive[o] { self.normalise(o, cons); } }
                    Ok(true) }
                // any_append: ordinary nodes as append; an attribute / namespace node goes through the map view:
                // an entry with the same key is updated in place, otherwise the node moves behind the last entry
                "any_append" => { let (p, c) = (x, y);
                    if self.normal(c) { return self.apply("append", x, y, cons); }
                    if !matches!(self.kind[p], Kind::Elem(_)) { return Ok(false); }
                    match self.kids[p].iter().copied().find(|k| self.same_key(*k, c)) {
                        Some(e) => { self.kind[e] = self.kind[c].clone(); }
                        None => { self.detach_raw(c); let i = self.map_insertion_index(p, self.cat(c)); self.kids[p].insert(i, c); self.parent[c] = Some(p); }
                    }
                    Ok(true) }
                // attributes_mut(x).insert(name_k, "n") / namespaces_mut(x).insert(prefix_k, urn:new)
                "attr_set" | "ns_set" => {
                    if !matches!(self.kind[x], Kind::Elem(_)) { return Err(()); }   // documented panic
                    let k = if op == "attr_set" { Kind::Attr(ATTR_NAMES[y % 3], "n".into()) } else { Kind::Ns(NS_PREFIXES[y % 3], "urn:new") };
                    let n = self.kind.len();
                    self.kind.push(k); self.parent.push(None); self.kids.push(vec![]); self.alive.push(true);
                    match self.kids[x].iter().copied().find(|e| self.same_key(*e, n)) {
                        Some(e) => { self.kind[e] = self.kind[n].clone(); self.kind.pop(); self.parent.pop(); self.kids.pop(); self.alive.pop(); }
                        None => { let i = self.map_insertion_index(x, self.cat(n)); self.kids[x].insert(i, n); self.parent[n] = Some(x); }
                    }
                    Ok(true) }
                "attr_del" | "ns_del" => {
                    if !matches!(self.kind[x], Kind::Elem(_)) { return Err(()); }   // documented panic
                    let probe = if op == "attr_del" { Kind::Attr(ATTR_NAMES[y % 3], String::new()) } else { Kind::Ns(NS_PREFIXES[y % 3], "") };
                    let found = self.kids[x].iter().copied().find(|e| match (&self.kind[*e], &probe) {
                        (Kind::Attr(a, _), Kind::Attr(b, _)) => a == b, (Kind::Ns(a, _), Kind::Ns(b, _)) => a == b, _ => false });
                    if let Some(e) = found { self.kill(e); }
                    Ok(true) }
                _ => Err(()),
            }
        }
        /// text nodes that have become adjacent are merged into the earlier one
        fn normalise(&mut self, p: usize, cons: bool) {
            if !cons { return; }
            loop {
                let ks = self.kids[p].clone();
                match ks.windows(2).find(|w| self.is_text(w[0]) && self.is_text(w[1])) { Some(w) => self.merge(w[0], w[1]), None => return }
            }
        }
        fn same_key(&self, a: usize, b: usize) -> bool {
            match (&self.kind[a], &self.kind[b]) { (Kind::Attr(x, _), Kind::Attr(y, _)) => x == y, (Kind::Ns(x, _), Kind::Ns(y, _)) => x == y, _ => false } }
        /// behind the last entry of that category; attributes behind the namespace nodes; else in front
        fn map_insertion_index(&self, p: usize, cat: u8) -> usize { self.kids[p].iter().filter(|k| self.cat(**k) <= cat).count() }
    }
    pub const ATTR_NAMES: [&str; 3] = ["p", "q", "r"];
    pub const NS_PREFIXES: [&str; 3] = ["n", "m", "k"];

    /// build the same forest in the model and in a Xot; `spec` is a small s-expression-like list
    pub fn build(which: usize, cons: bool) -> (M, Xot, Vec<Node>) {
        use Kind::*;
        // (kind, parent index)
        let shapes: Vec<Vec<(Kind, Option<usize>)>> = vec![
            vec![(Doc, None), (Elem("a"), Some(0)), (Text("x".into()), Some(1)), (Elem("b"), Some(1)), (Text("y".into()), Some(1)), (Elem("c"), Some(1)), (Text("z".into()), Some(5))],
            vec![(Doc, None), (Elem("a"), Some(0)), (Attr("p", "1".into()), Some(1)), (Attr("q", "2".into()), Some(1)), (Elem("b"), Some(1)), (Elem("c"), Some(1)), (Comment("k".into()), Some(5))],
            vec![(Elem("r"), None), (Elem("a"), Some(0)), (Elem("b"), Some(1)), (Elem("c"), Some(2)), (Text("t".into()), Some(0)), (Elem("u"), None), (Text("v".into()), None)],
            vec![(Doc, None), (Elem("a"), Some(0)), (Text("x".into()), Some(1)), (Elem("b"), Some(1)), (Text("t".into()), Some(3)), (Elem("c"), Some(1)), (Text("y".into()), Some(1))],
            // namespace declarations and attributes together; a childless element that only carries a declaration
            vec![(Doc, None), (Elem("a"), Some(0)), (Ns("n", "urn:n"), Some(1)), (Attr("p", "1".into()), Some(1)), (Elem("b"), Some(1)), (Ns("m", "urn:m"), Some(4)), (Elem("c"), Some(1)), (Text("w".into()), None)],
            vec![(Elem("a"), None), (Ns("n", "urn:n"), Some(0)), (Ns("m", "urn:m"), Some(0)), (Attr("p", "1".into()), Some(0)), (Text("x".into()), Some(0)), (Elem("b"), Some(0)), (Ns("k", "urn:k"), Some(5)), (Elem("c"), None)],
        ];
        let shape = &shapes[which % shapes.len()];
        let mut xot = Xot::new();
        xot.set_text_consolidation(cons);
        let mut m = M { kind: vec![], parent: vec![], kids: vec![], alive: vec![], loose: false };
        let mut nodes = vec![];
        for (k, p) in shape {
            let n = match k {
                Doc => xot.new_document(),
                Elem(nm) => { let id = xot.add_name(nm); xot.new_element(id) }
                Text(t) => xot.new_text(t),
                Comment(t) => xot.new_comment(t),
                Attr(nm, v) => { let id = xot.add_name(nm); xot.new_attribute_node(id, v.clone()) }
                Ns(pre, uri) => { let p = xot.add_prefix(pre); let u = xot.add_namespace(uri); xot.new_namespace_node(p, u) }
            };
            m.kind.push(k.clone()); m.parent.push(None); m.kids.push(vec![]); m.alive.push(true);
            let i = nodes.len();
            nodes.push(n);
            if let Some(p) = p {
                xot.any_append(nodes[*p], n).unwrap();
                m.parent[i] = Some(*p); m.kids[*p].push(i);
            }
        }
        (m, xot, nodes)
    }

    pub fn shapes() -> usize { 6 }
    pub fn max_nodes() -> usize { 8 }

    /// every child of `n`, namespace and attribute nodes included, through the public all_traverse
    fn all_kids(xot: &Xot, n: Node) -> Vec<Node> {
        let mut depth = 0usize;
        let mut v = Vec::new();
        for e in xot.all_traverse(n) {
            match e { xot::NodeEdge::Start(k) => { if depth == 1 { v.push(k); } depth += 1; } xot::NodeEdge::End(_) => { depth -= 1; } }
        }
        v
    }

    fn observe(xot: &Xot, nodes: &[Node]) -> Vec<String> {
        // one line per handle: liveness, parent, all children (namespace and attribute nodes included), value
        nodes.iter().map(|n| {
            if xot.is_removed(*n) { return "removed".to_string(); }
            let idx = |x: Node| nodes.iter().position(|y| *y == x).map(|i| i.to_string()).unwrap_or("?".into());
            let parent = xot.parent(*n).map(idx).unwrap_or("-".into());
            let mut kids: Vec<String> = xot.namespaces(*n).nodes().map(idx).collect();
            kids.extend(xot.attributes(*n).nodes().map(idx));
            kids.extend(xot.children(*n).map(idx));
            format!("p={} k=[{}] v={:?}", parent, kids.join(","), value_str(xot, *n))
        }).collect()
    }
    fn value_str(xot: &Xot, n: Node) -> String {
        match xot.value(n) { xot::Value::Text(t) => format!("T:{}", t.get()), xot::Value::Comment(c) => format!("C:{}", c.get()),
            xot::Value::Element(_) => "E".into(), xot::Value::Document => "D".into(), xot::Value::Attribute(a) => format!("A:{}", a.value()),
            xot::Value::Namespace(ns) => format!("N:{}", xot.namespace_str(ns.namespace())), _ => "?".into() }
    }
    fn observe_model(m: &M) -> Vec<String> {
        (0..m.kind.len()).map(|i| {
            if !m.alive[i] { return "removed".to_string(); }
            let parent = m.parent[i].map(|p| p.to_string()).unwrap_or("-".into());
            let kids: Vec<String> = m.kids[i].iter().map(|k| k.to_string()).collect();
            let v = match &m.kind[i] { Kind::Text(t) => format!("T:{}", t), Kind::Comment(c) => format!("C:{}", c), Kind::Elem(_) => "E".into(), Kind::Doc => "D".into(),
                Kind::Attr(_, v) => format!("A:{}", v), Kind::Ns(_, u) => format!("N:{}", u) };
            format!("p={} k=[{}] v={:?}", parent, kids.join(","), v)
        }).collect()
    }

    /// every tree rendered with handle numbers for non-text nodes and contents for text nodes; trees sorted
    fn canon_real(xot: &Xot, nodes: &[Node]) -> Vec<String> {
        fn r(xot: &Xot, nodes: &[Node], n: Node) -> String {
            if let Some(t) = xot.text_str(n) { return format!("T:{:?}", t); }
            let me = nodes.iter().position(|y| *y == n).map(|i| i.to_string()).unwrap_or("?".into());
            format!("#{}{}[{}]", me, value_str(xot, n), all_kids(xot, n).into_iter().map(|k| r(xot, nodes, k)).collect::<Vec<_>>().join(","))
        }
        let mut v: Vec<String> = nodes.iter().filter(|n| !xot.is_removed(**n) && xot.parent(**n).is_none()).map(|n| r(xot, nodes, *n)).collect();
        v.sort();
        v
    }
    fn canon_model(m: &M) -> Vec<String> {
        fn r(m: &M, n: usize) -> String {
            if let Kind::Text(t) = &m.kind[n] { return format!("T:{:?}", t); }
            let v = match &m.kind[n] { Kind::Comment(c) => format!("C:{}", c), Kind::Elem(_) => "E".into(), Kind::Doc => "D".into(), Kind::Attr(_, v) => format!("A:{}", v), Kind::Ns(_, u) => format!("N:{}", u), Kind::Text(_) => unreachable!() };
            format!("#{}{}[{}]", n, v, m.kids[n].iter().map(|k| r(m, *k)).collect::<Vec<_>>().join(","))
        }
        let mut v: Vec<String> = (0..m.kind.len()).filter(|n| m.alive[*n] && m.parent[*n].is_none()).map(|n| r(m, n)).collect();
        v.sort();
        v
    }

    /// C04: structural validity of everything reachable from the live handles, through public navigation only
    pub fn validate(xot: &Xot, nodes: &[Node], cons: bool) -> Option<String> {
        let cat = |n: Node| match xot.value(n) { xot::Value::Namespace(_) => 0u8, xot::Value::Attribute(_) => 1, _ => 2 };
        let name = |n: Node| nodes.iter().position(|y| *y == n).map(|i| i.to_string()).unwrap_or_else(|| "?".into());
        for n in nodes.iter().copied().filter(|n| !xot.is_removed(*n)) {
            let kids = all_kids(xot, n);
            if !kids.is_empty() && !matches!(xot.value(n), xot::Value::Element(_) | xot::Value::Document) { return Some(format!("node {} is not an element or document but has children", name(n))); }
            if matches!(xot.value(n), xot::Value::Document) && xot.parent(n).is_some() { return Some(format!("document node {} has a parent", name(n))); }
            if cat(n) != 2 { if let Some(p) = xot.parent(n) { if !matches!(xot.value(p), xot::Value::Element(_)) { return Some(format!("namespace/attribute node {} under a non-element", name(n))); } } }
            if let Some(p) = xot.parent(n) { if xot.is_removed(p) { return Some(format!("parent of live node {} is removed", name(n))); }
                if !all_kids(xot, p).contains(&n) { return Some(format!("node {} is not among the children of its parent {}", name(n), name(p))); } }
            else if xot.next_sibling(n).is_some() || xot.previous_sibling(n).is_some() { return Some(format!("parentless node {} has a sibling", name(n))); }
            for w in kids.windows(2) {
                if cat(w[0]) > cat(w[1]) { return Some(format!("children of {} out of order: {} (category {}) before {} (category {})", name(n), name(w[0]), cat(w[0]), name(w[1]), cat(w[1]))); }
                if cons && xot.text_str(w[0]).is_some() && xot.text_str(w[1]).is_some() { return Some(format!("adjacent text nodes {} and {} under {}", name(w[0]), name(w[1]), name(n))); }
            }
            for k in &kids {
                if xot.is_removed(*k) { return Some(format!("removed node handed out as a child of {}", name(n))); }
                if xot.parent(*k) != Some(n) { return Some(format!("child {} of {} has parent {:?}", name(*k), name(n), xot.parent(*k).map(name))); }
            }
            let by_cat = |c: u8| kids.iter().copied().filter(|k| cat(*k) == c).collect::<Vec<_>>();
            if xot.namespaces(n).nodes().collect::<Vec<_>>() != by_cat(0) { return Some(format!("namespaces({}) disagrees with the namespace nodes among its children", name(n))); }
            if xot.attributes(n).nodes().collect::<Vec<_>>() != by_cat(1) { return Some(format!("attributes({}) disagrees with the attribute nodes among its children", name(n))); }
            let normal = by_cat(2);
            if xot.children(n).collect::<Vec<_>>() != normal { return Some(format!("children({}) disagrees with the ordinary nodes among all its children", name(n))); }
            if xot.first_child(n) != normal.first().copied() || xot.last_child(n) != normal.last().copied() { return Some(format!("first_child/last_child of {} inconsistent with children", name(n))); }
            for (i, k) in normal.iter().enumerate() {
                if xot.next_sibling(*k) != normal.get(i + 1).copied() { return Some(format!("next_sibling({}) inconsistent with children({})", name(*k), name(n))); }
                if xot.previous_sibling(*k) != if i == 0 { None } else { Some(normal[i - 1]) } { return Some(format!("previous_sibling({}) inconsistent with children({})", name(*k), name(n))); }
            }
            let mut keys: Vec<_> = xot.attributes(n).keys().collect(); let l = keys.len(); keys.sort(); keys.dedup();
            if keys.len() != l { return Some(format!("duplicate attribute name under {}", name(n))); }
            let mut pre: Vec<_> = xot.namespaces(n).keys().collect(); let l = pre.len(); pre.sort(); pre.dedup();
            if pre.len() != l { return Some(format!("duplicate prefix declared under {}", name(n))); }
        }
        None
    }

    fn call(xot: &mut Xot, nodes: &[Node], op: &str, x: usize, y: usize, made: &mut Option<Node>) -> Result<bool, ()> {
        panic::catch_unwind(panic::AssertUnwindSafe(|| match op {
            "detach" => xot.detach(nodes[x]).is_ok(),
            "remove" => xot.remove(nodes[x]).is_ok(),
            "append" => xot.append(nodes[x], nodes[y]).is_ok(),
            "prepend" => xot.prepend(nodes[x], nodes[y]).is_ok(),
            "insert_after" => xot.insert_after(nodes[x], nodes[y]).is_ok(),
            "insert_before" => xot.insert_before(nodes[x], nodes[y]).is_ok(),
            "any_append" => xot.any_append(nodes[x], nodes[y]).is_ok(),
            "replace" => xot.replace(nodes[x], nodes[y]).is_ok(),
            "unwrap" => xot.element_unwrap(nodes[x]).is_ok(),
            "wrap" => { let w = xot.add_name("w"); match xot.element_wrap(nodes[x], w) { Ok(n) => { *made = Some(n); true } Err(_) => false } }
            "new_doc" => { match xot.new_document_with_element(nodes[x]) { Ok(n) => { *made = Some(n); true } Err(_) => false } }
            "attr_set" => { let n = xot.add_name(ATTR_NAMES[y % 3]); xot.attributes_mut(nodes[x]).insert(n, "n".to_string()); true }
            "attr_del" => { let n = xot.add_name(ATTR_NAMES[y % 3]); xot.attributes_mut(nodes[x]).remove(n); true }
            "ns_set" => { let p = xot.add_prefix(NS_PREFIXES[y % 3]); let u = xot.add_namespace("urn:new"); xot.namespaces_mut(nodes[x]).insert(p, u); true }
            "ns_del" => { let p = xot.add_prefix(NS_PREFIXES[y % 3]); xot.namespaces_mut(nodes[x]).remove(p); true }
            _ => false,
        })).map_err(|_| ())
    }

    /// Some(detail) if the real crate deviates from the model, or leaves an invalid forest, on this call sequence
    pub fn run(which: usize, cons: bool, steps: &[(String, usize, usize)]) -> Option<String> {
        let (mut m, mut xot, mut nodes) = build(which, cons);
        let mut done = String::new();
        for (op, x, y) in steps {
            let (x, y) = (*x, *y);
            let unary = op == "detach" || op == "remove" || op == "wrap" || op == "unwrap" || op == "new_doc";
            m.loose = false;
            let keyed = op.starts_with("attr_") || op.starts_with("ns_");
            if x >= nodes.len() || (!keyed && y >= nodes.len()) { return None; }
            // a removed node is not a legal argument
            if !m.alive[x] || (!unary && !keyed && !m.alive[y]) { return None; }
            let before = observe(&xot, &nodes);
            let expected = match m.apply(op, x, y, cons) { Err(()) => return None, Ok(b) => b };
            let here = format!("{}{}({}, {})", done, op, x, y);
            let mut made = None;
            let ok = match call(&mut xot, &nodes, op, x, y, &mut made) { Err(()) => return Some(format!("{} panics", here)), Ok(ok) => ok };
            if let Some(w) = made { if expected { nodes.push(w); } else { return Some(format!("{} returned Ok but the model refuses", here)); } }
            if m.kind.len() > nodes.len() {
                // the map call created a node: its handle is found through the map view
                let h = match &m.kind[nodes.len()] {
                    Kind::Attr(nm, _) => { let n = xot.add_name(nm); xot.attributes(nodes[x]).get_node(n) }
                    Kind::Ns(pre, _) => { let p = xot.add_prefix(pre); xot.namespaces(nodes[x]).get_node(p) }
                    _ => None };
                match h { Some(h) => nodes.push(h), None => return Some(format!("{}: the new entry is not found through the map view", here)) }
            }
            let after = observe(&xot, &nodes);
            if ok != expected { return Some(format!("{} returned {} but the model {}", here, if ok { "Ok" } else { "Err" }, if expected { "accepts" } else { "refuses" })); }
            if expected && m.loose {
                let (got, want) = (canon_real(&xot, &nodes), canon_model(&m));
                if ok && got != want { return Some(format!("{} [Ok]: forest {:?} differs from the model {:?}", here, got, want)); }
                if ok { if let Some(d) = validate(&xot, &nodes, cons) { return Some(format!("{}: structurally invalid forest (C04): {}", here, d)); } }
                if !ok { return Some(format!("{} returned Err but the model accepts", here)); }
                // handles of text nodes merged away differ between model and code: re-synchronise the model's liveness
                for i in 0..nodes.len() { if m.is_text(i) { let dead = xot.is_removed(nodes[i]); if dead == m.alive[i] { return None; } } }
                done = format!("{}; ", here);
                continue;
            }
            let want = if expected { observe_model(&m) } else { before };
            if after != want { return Some(format!("{} [{}]: forest {:?} differs from the model {:?}", here, if ok { "Ok" } else { "Err" }, after, want)); }
            if let Some(d) = validate(&xot, &nodes, cons) { return Some(format!("{}: structurally invalid forest (C04): {}", here, d)); }
            done = format!("{}; ", here);
        }
        None
    }

    /// "op x y[;op x y]..."
    pub fn parse_steps(s: &str) -> Option<Vec<(String, usize, usize)>> {
        s.split(';').map(|st| { let f: Vec<&str> = st.trim().split(' ').collect(); if f.len() != 3 { return None; } Some((f[0].to_string(), f[1].parse().ok()?, f[2].parse().ok()?)) }).collect()
    }
}
// (C10 witness) no-namespace element below a default namespace declaration
#[allow(dead_code)]
fn c10_default_ns_witness() -> Option<String> {
    let mut xot = Xot::new();
    let root = xot.parse("<a xmlns=\"u\"/>").ok()?;
    let a = xot.document_element(root).ok()?;
    let b = xot.add_name("b");
    let el = xot.new_element(b);
    xot.append(a, el).ok()?;
    let s = xot.to_string(root).ok()?;
    let mut xot2 = Xot::new();
    let root2 = xot2.parse(&s).ok()?;
    let a2 = xot2.document_element(root2).ok()?;
    let b2 = xot2.first_child(a2)?;
    let name = xot2.element(b2)?.name();
    let (_, ns) = xot2.name_ns_str(name);
    if ns != "" { Some(format!("serialised as {:?}; the element b is read back in namespace {:?}", s, ns)) } else { None }
}

// =============================================================================================
// bounded stand-ins for functions outside the verifier's reach (labelled bounded, never counted as proved)
mod bounded {
    use xot::Xot;

    /// namespace layouts: three nested elements, each optionally (re)declaring the default namespace (u1, u2 or
    /// undeclaring it) and/or a prefix p / q, each named in no namespace, u1 or u2, plus an attribute on the innermost
    /// element.  Serialisation must fail or reparse to the same expanded names (C01 / C10).
    pub fn ns_layouts() -> Vec<String> {
        let mut v = Vec::new();
        let decls = ["", "d1", "d2", "d0", "p1", "p2", "q1", "d1p1", "d1q1", "d0p1", "d2p1"];
        let names = ["0", "1", "2"];
        for da in decls { for db in decls { for dc in ["", "d0", "p2", "d2"] {
            for na in names { for nb in names { for nc in names { for attr in ["-", "1", "2"] {
                v.push(format!("{}|{}|{}|{}{}{}|{}", da, db, dc, na, nb, nc, attr));
            }}}}
        }}}
        v
    }

    pub fn ns_layout(input: &str) -> Option<String> {
        let f: Vec<&str> = input.split('|').collect();
        if f.len() != 5 { return None; }
        let mut xot = Xot::new();
        let uris = ["", "http://u1", "http://u2"];
        let ns_ids: Vec<_> = uris.iter().map(|u| xot.add_namespace(u)).collect();
        let empty = xot.empty_prefix();
        let p = xot.add_prefix("p");
        let q = xot.add_prefix("q");
        let names: Vec<char> = f[3].chars().collect();
        let mut els = Vec::new();
        for (i, local) in ["a", "b", "c"].iter().enumerate() {
            let nsi = names[i].to_digit(10)? as usize;
            let name = xot.add_name_ns(local, ns_ids[nsi]);
            let el = xot.new_element(name);
            // declarations
            let d = f[i];
            let mut k = 0;
            let chars: Vec<char> = d.chars().collect();
            while k + 1 < chars.len() {
                let pre = match chars[k] { 'd' => empty, 'p' => p, 'q' => q, _ => return None };
                let n = ns_ids[chars[k + 1].to_digit(10)? as usize];
                if pre != empty && chars[k + 1] == '0' { return None; }
                xot.namespaces_mut(el).insert(pre, n);
                k += 2;
            }
            if let Some(parent) = els.last() { xot.append(*parent, el).ok()?; }
            els.push(el);
        }
        if f[4] != "-" {
            let nsi = f[4].parse::<usize>().ok()?;
            let an = xot.add_name_ns("at", ns_ids[nsi]);
            xot.attributes_mut(els[2]).insert(an, "v".to_string());
        }
        // known finding (C10): an element in no namespace below a default namespace declaration
        {
            let mut default_bound = false;
            for (i, d) in f[..3].iter().enumerate() {
                if d.contains("d1") || d.contains("d2") { default_bound = true; }
                if d.contains("d0") { default_bound = false; }
                if names[i] == '0' && default_bound { return None; }
            }
        }
        let s = match xot.to_string(els[0]) { Ok(s) => s, Err(_) => return None };   // refusing is allowed
        let mut xot2 = Xot::new();
        let root2 = match xot2.parse(&s) { Ok(r) => r, Err(e) => return Some(format!("serialised as {:?}, which does not reparse: {:?}", s, e)) };
        let mut n2 = xot2.document_element(root2).ok()?;
        for (i, el) in els.iter().enumerate() {
            let want = { let nm = xot.element(*el)?.name(); let (l, u) = xot.name_ns_str(nm); (l.to_string(), u.to_string()) };
            let got = { let nm = xot2.element(n2)?.name(); let (l, u) = xot2.name_ns_str(nm); (l.to_string(), u.to_string()) };
            if want != got { return Some(format!("serialised as {:?}: element {} is read back as {:?} instead of {:?}", s, i, got, want)); }
            if i == 2 && f[4] != "-" {
                let want: Vec<(String, String)> = xot.attributes(*el).keys().map(|k| { let (l, u) = xot.name_ns_str(k); (l.to_string(), u.to_string()) }).collect();
                let got: Vec<(String, String)> = xot2.attributes(n2).keys().map(|k| { let (l, u) = xot2.name_ns_str(k); (l.to_string(), u.to_string()) }).collect();
                if want != got { return Some(format!("serialised as {:?}: attributes read back as {:?} instead of {:?}", s, got, want)); }
            }
            if i < 2 { n2 = xot2.first_child(n2)?; }
        }
        None
    }

    /// character / entity references: the parser must accept exactly the XML 1.0 productions
    /// `&name;` (five predefined names), `&#[0-9]+;`, `&#x[0-9a-fA-F]+;` denoting an XML Char
    pub fn ref_strings(large: bool) -> Vec<String> {
        super::strings(&['&', '#', 'x', 'X', '4', '1', 'A', 'g', 't', ';', '+', '0'], if large { 7 } else { 6 })
            .into_iter().filter(|s| s.starts_with('&') && s.contains(';')).collect()
    }

    fn xml_ref_value(body: &str) -> Option<char> {
        match body { "amp" => return Some('&'), "lt" => return Some('<'), "gt" => return Some('>'), "apos" => return Some('\''), "quot" => return Some('"'), _ => {} }
        let code = if let Some(h) = body.strip_prefix("#x") {
            if h.is_empty() || !h.chars().all(|c| c.is_ascii_hexdigit()) { return None; }
            u32::from_str_radix(h, 16).ok()?
        } else if let Some(d) = body.strip_prefix('#') {
            if d.is_empty() || !d.chars().all(|c| c.is_ascii_digit()) { return None; }
            d.parse::<u32>().ok()?
        } else { return None };
        let c = char::from_u32(code)?;
        let ok = matches!(code, 0x9 | 0xA | 0xD | 0x20..=0xD7FF | 0xE000..=0xFFFD | 0x10000..=0x10FFFF);
        if ok { Some(c) } else { None }
    }

    /// reference reading of text consisting of references and the characters of the alphabet
    fn xml_text_value(s: &str) -> Option<String> {
        let mut out = String::new();
        let mut rest = s;
        while !rest.is_empty() {
            if let Some(r) = rest.strip_prefix('&') {
                let end = r.find(';')?;
                out.push(xml_ref_value(&r[..end])?);
                rest = &r[end + 1..];
            } else {
                let c = rest.chars().next()?;
                out.push(c);
                rest = &rest[c.len_utf8()..];
            }
        }
        Some(out)
    }

    pub fn char_ref(input: &str) -> Option<String> {
        let doc = format!("<a>{}</a>", input);
        let want = xml_text_value(input);
        let mut xot = Xot::new();
        match (xot.parse(&doc), want) {
            (Ok(root), Some(w)) => {
                let de = xot.document_element(root).ok()?;
                let got = xot.string_value(de);
                // CR produced by a reference stays CR
                if got != w { Some(format!("{:?} is read as {:?}, XML 1.0 says {:?}", doc, got, w)) } else { None }
            }
            (Ok(root), None) => {
                let de = xot.document_element(root).ok()?;
                Some(format!("{:?} is not well-formed XML (bad reference) but is accepted, read as {:?}", doc, xot.string_value(de)))
            }
            (Err(e), Some(w)) => Some(format!("{:?} is well-formed (denotes {:?}) but is rejected: {:?}", doc, w, e)),
            (Err(_), None) => None,
        }
    }

    /// (C02) line ends and references together: token sequences over literal CR, LF, TAB, space, a letter and
    /// references to '<', CR, LF, TAB, in character data, in an attribute value and (literals only) in a CDATA section
    pub fn line_end_inputs(large: bool) -> Vec<String> {
        let toks = ["\r", "\n", "\t", " ", "a", "&lt;", "&#13;", "&#10;", "&#x9;"];
        let mut seqs: Vec<String> = vec![String::new()];
        let mut frontier = seqs.clone();
        for _ in 0..(if large { 5 } else { 4 }) {
            let mut next = Vec::new();
            for s in &frontier { for t in toks { next.push(format!("{}{}", s, t)); } }
            seqs.extend(next.iter().cloned());
            frontier = next;
        }
        seqs.retain(|s| !s.is_empty());
        seqs
    }

    /// XML 1.0 section 2.11 (line ends, before anything else), 4.1 (references), 3.3.3 (attribute-value normalisation)
    fn xml_norm(s: &str, attribute: bool) -> String {
        // 2.11 on the literal text
        let mut lit = String::new();
        let cs: Vec<char> = s.chars().collect();
        let mut i = 0;
        while i < cs.len() {
            if cs[i] == '\r' { lit.push('\n'); if i + 1 < cs.len() && cs[i + 1] == '\n' { i += 1; } } else { lit.push(cs[i]); }
            i += 1;
        }
        let mut out = String::new();
        let mut rest = lit.as_str();
        while !rest.is_empty() {
            if let Some(r) = rest.strip_prefix('&') {
                let end = r.find(';').unwrap();
                out.push(xml_ref_value(&r[..end]).unwrap());
                rest = &r[end + 1..];
            } else {
                let c = rest.chars().next().unwrap();
                out.push(if attribute && (c == '\n' || c == '\t') { ' ' } else { c });
                rest = &rest[c.len_utf8()..];
            }
        }
        out
    }

    pub fn line_ends(input: &str) -> Option<String> {
        let mut xot = Xot::new();
        let x = xot.add_name("x");
        // character data
        let doc = format!("<a>{}</a>", input);
        let root = match xot.parse(&doc) { Ok(r) => r, Err(e) => return Some(format!("{:?} is well-formed but rejected: {:?}", doc, e)) };
        let de = xot.document_element(root).ok()?;
        let want = xml_norm(input, false);
        if xot.string_value(de) != want { return Some(format!("{:?}: character data read as {:?}, XML 1.0 says {:?}", doc, xot.string_value(de), want)); }
        if xot.children(de).count() != 1 { return Some(format!("{:?}: {} child nodes instead of one text node", doc, xot.children(de).count())); }
        // attribute value, both quote styles
        for q in ['"', '\''] {
            let doc = format!("<a x={}{}{}/>", q, input, q);
            let root = match xot.parse(&doc) { Ok(r) => r, Err(e) => return Some(format!("{:?} is well-formed but rejected: {:?}", doc, e)) };
            let de = xot.document_element(root).ok()?;
            let want = xml_norm(input, true);
            if xot.get_attribute(de, x) != Some(want.as_str()) { return Some(format!("{:?}: attribute read as {:?}, XML 1.0 says {:?}", doc, xot.get_attribute(de, x), want)); }
        }
        // CDATA section between text: literals only, one merged text node
        if !input.contains('&') {
            let doc = format!("<a>{}<![CDATA[{}]]>{}</a>", input, input, input);
            let root = match xot.parse(&doc) { Ok(r) => r, Err(e) => return Some(format!("{:?} is well-formed but rejected: {:?}", doc, e)) };
            let de = xot.document_element(root).ok()?;
            let one = xml_norm(input, false);
            let want = format!("{}{}{}", one, one, one);
            if xot.string_value(de) != want { return Some(format!("{:?}: read as {:?}, XML 1.0 says {:?}", doc, xot.string_value(de), want)); }
            if xot.children(de).count() != 1 { return Some(format!("{:?}: text / CDATA / text not merged into one text node", doc)); }
        }
        // parse_fragment returns the same content as the wrapped parse
        if let Ok(frag) = xot.parse_fragment(input) {
            let got: String = xot.children(frag).map(|c| xot.string_value(c)).collect();
            if got != xml_norm(input, false) { return Some(format!("parse_fragment({:?}) gives {:?}, wrapped parse gives {:?}", input, got, xml_norm(input, false))); }
        } else { return Some(format!("parse_fragment({:?}) fails although the wrapped text parses", input)); }
        None
    }

    /// (C03) ill-formed text is rejected, well-formed text accepted, nothing panics; what is accepted is valid,
    /// serialises to text that is accepted again and reparses deep-equal.  Inputs: "A|doc" (must be accepted),
    /// "R|doc" (must be rejected), "B|label" (bytes declaring that encoding: any result but a panic)
    pub fn wf_inputs() -> Vec<String> {
        let mut v: Vec<String> = Vec::new();
        // declarations x attributes on one start tag: expectation computed from XML Namespaces
        let decls = [("p", "u"), ("q", "u"), ("q", "v"), ("p", "v"), ("", "u"), ("", "v")];
        let attrs = ["x", "p:x", "q:x", "y", "p:y"];
        let mut decl_sets: Vec<Vec<(&str, &str)>> = vec![vec![]];
        for a in decls { decl_sets.push(vec![a]); for b in decls { decl_sets.push(vec![a, b]); } }
        let mut attr_sets: Vec<Vec<&str>> = vec![vec![]];
        for a in attrs { attr_sets.push(vec![a]); for b in attrs { attr_sets.push(vec![a, b]); for c in attrs { attr_sets.push(vec![a, b, c]); } } }
        for ds in &decl_sets { for at in &attr_sets {
            let mut ok = true;
            for (i, d) in ds.iter().enumerate() { if ds[..i].iter().any(|e| e.0 == d.0) { ok = false; } }
            let mut seen: Vec<(String, String)> = Vec::new();
            for a in at {
                let (pre, local) = match a.split_once(':') { Some((p, l)) => (p, l), None => ("", *a) };
                let ns = if pre.is_empty() { Some("") } else { ds.iter().find(|d| d.0 == pre).map(|d| d.1) };
                match ns { None => ok = false, Some(u) => { let k = (u.to_string(), local.to_string()); if seen.contains(&k) { ok = false; } seen.push(k); } }
            }
            let mut doc = String::from("<a");
            for (p, u) in ds { if p.is_empty() { doc.push_str(&format!(" xmlns=\"{}\"", u)); } else { doc.push_str(&format!(" xmlns:{}=\"{}\"", p, u)); } }
            for a in at { doc.push_str(&format!(" {}=\"1\"", a)); }
            doc.push_str("/>");
            v.push(format!("{}|{}", if ok { 'A' } else { 'R' }, doc));
        }}
        for d in ["<a/>", "<a></a>", "<a>t</a>", "<!--c--><a/><?p?>", "<?xml version=\"1.0\"?><a/>", "<?xml version=\"1.0\" standalone=\"yes\"?><a/>", "<a><b/>t<![CDATA[x]]></a>",
                  "<a>&#x9;&#xA;&#xD;&#x20;&#xD7FF;&#xE000;&#xFFFD;&#x10000;&#x10FFFF;</a>", "<a xml:id=\"i\"><b xml:id=\"j\"/></a>", "<p:a xmlns:p=\"u\"><p:b/></p:a>",
                  "<a xmlns:p=\"a&amp;b\" p:x=\"1\"/>", "<a xmlns:p='a\"b'><p:c/></a>", "<a xmlns=\"u&lt;\"/>", "<a x='&quot;'/>", "\u{feff}<a/>", "<a>\r\n</a>"] {
            v.push(format!("A|{}", d));
        }
        for d in ["", " ", "<a>", "</a>", "<a></b>", "<a/><b/>", "x<a/>", "<a/>x", "<a><b></a></b>", "<a", "<a>&</a>", "<a>&amp</a>", "<a><</a>", "<a x=\"<\"/>", "<a x=\"&\"/>", "<a x=1/>", "<a x/>",
                  "<!-- -- --><a/>", "<a><!-- x</a>", "<a><!--x--->y</a>", "<?xml version=\"1.1\"?><a/>", "<?xml version=\"2.0\"?><a/>", "<!DOCTYPE a><a/>", "<!DOCTYPE a [<!ENTITY e \"x\">]><a>&e;</a>",
                  "<a><![CDATA[x</a>", "<a>]]></a>", "<a>&#0;</a>", "<a>&#xD800;</a>", "<a>&#xFFFE;</a>", "<a>&#x110000;</a>", "<a>&#x;</a>", "<a>&#;</a>", "<a>&#x1g;</a>", "<a>&#+65;</a>", "<a>&nbsp;</a>",
                  "<a xml:id=\"i\"><b xml:id=\"i\"/></a>", "<a xml:id=\"i\"><b xml:id=\" i \"/></a>", "<a><?pi</a>", "<a><?xml x?></a>", "<p:a/>", "<a p:x=\"1\"/>", "<a xmlns:p=\"u\"><q:b/></a>",
                  "<a xmlns:p=\"u&bogus;\"/>", "<a xmlns:p=\"u\" xmlns:p=\"u\"/>", "<a x=\"1\" x=\"1\"/>", "<a xmlns:p=\"\" p:x=\"1\" x=\"2\"/>", "<a xmlns:p=\"\" x=\"2\" p:x=\"1\"/>", "<a xmlns:p=\"u\" xmlns:q=\"u\" q:x=\"1\" p:x=\"2\"/>", "<a><b x=\"1\" y=\"2\" x=\"3\"/></a>", "<a>\u{0}</a>", "<a>\u{1}</a>", "<a>\u{ffff}</a>", "<?xml version=\"1.0\"?>", "<a/><!--", "<a></a></a>", "<a/></a>", "x</a>", "<a/></b>", "<b/></a>"] {
            v.push(format!("R|{}", d));
        }
        for l in ["UTF-8", "utf-8", "ISO-8859-1", "windows-1252", "US-ASCII", "foo", "UTF-16", "UTF-16LE", "UTF-32", "EBCDIC-CP-US", "x-user-defined", "", "replacement", "UTF-7", "Shift_JIS", "KOI8-R"] {
            v.push(format!("B|{}", l));
        }
        // totality ("T|doc": any result but a panic): a construct left open, followed by ASCII / 2- / 3- / 4-byte characters
        // in runs of many lengths (error paths that cut, index or slice the offending text), in content and in an attribute value
        for open in ["&a", "&", "&#", "&#x", "&#x4", "<!--", "<![CDATA[", "<?p ", "<b x=\"", "</", "<", "]]>", "&lt", "<!DOCTYPE "] {
            for pad in ['x', '\u{e9}', '\u{20ac}', '\u{1f600}'] {
                for n in [0usize, 1, 2, 7, 15, 16, 17, 31, 32, 33, 40, 63, 64, 65, 100, 300] {
                    let run: String = std::iter::repeat(pad).take(n).collect();
                    v.push(format!("T|<a>{}{}</a>", open, run));
                    v.push(format!("T|<a>{}{}", open, run));
                    v.push(format!("T|<a x=\"{}{}\"/>", open, run));
                    v.push(format!("T|<a>{}{}{};</a>", run, open, run));
                }
            }
        }
        v
    }

    pub fn wf_reject(input: &str) -> Option<String> {
        let (kind, doc) = input.split_once('|')?;
        if kind == "B" {
            let bytes = format!("<?xml version=\"1.0\" encoding=\"{}\"?><a>\u{e9}</a>", doc).into_bytes();
            let r = std::panic::catch_unwind(|| { let mut xot = Xot::new(); xot.parse_bytes(&bytes).is_ok() });
            return match r { Err(_) => Some(format!("parse_bytes panics on a document declaring encoding {:?}", doc)), Ok(_) => None };
        }
        if kind == "T" {
            let d = doc.to_string();
            let r = std::panic::catch_unwind(move || {
                let mut xot = Xot::new();
                let _ = xot.parse(&d).is_ok();
                let _ = xot.parse_fragment(&d).is_ok();
                let _ = xot.parse_bytes(d.as_bytes()).is_ok();
            });
            return match r { Err(_) => Some(format!("a parse entry point panics on {:?}", doc)), Ok(_) => None };
        }
        // the fragment parser must not panic on anything either, and must refuse stray close tags
        let fr = std::panic::catch_unwind(|| { let mut xot = Xot::new(); xot.parse_fragment(doc).is_ok() });
        match fr { Err(_) => return Some(format!("parse_fragment panics on {:?}", doc)),
            Ok(ok) => { if ok && kind == "R" && (doc.starts_with("</") || doc.ends_with("</a>") && doc.matches("</a>").count() > doc.matches("<a>").count() + doc.matches("<a ").count()) { return Some(format!("parse_fragment accepts the stray close tag in {:?}", doc)); } } }
        let r = std::panic::catch_unwind(|| {
            let mut xot = Xot::new();
            match xot.parse(doc) {
                Err(_) => Err(()),
                Ok(root) => {
                    // accepted: valid, serialisable, accepted again, deep-equal
                    if xot.validate_well_formed_document(root).is_err() { return Ok(Some("accepted, but validate_well_formed_document fails".to_string())); }
                    let s = match xot.to_string(root) { Ok(s) => s, Err(e) => return Ok(Some(format!("accepted, but does not serialise: {:?}", e))) };
                    let root2 = match xot.parse(&s) { Ok(r) => r, Err(e) => return Ok(Some(format!("accepted, but its serialisation {:?} is rejected: {:?}", s, e))) };
                    if !xot.deep_equal(root, root2) { return Ok(Some(format!("accepted, but its serialisation {:?} reparses to a different tree", s))); }
                    // attribute names and declared prefixes are unique per element
                    for n in xot.descendants(root) {
                        let mut k: Vec<_> = xot.attributes(n).keys().collect(); let l = k.len(); k.sort(); k.dedup();
                        if k.len() != l { return Ok(Some("accepted with two attributes of the same expanded name on one element".to_string())); }
                        let mut k: Vec<_> = xot.namespaces(n).keys().collect(); let l = k.len(); k.sort(); k.dedup();
                        if k.len() != l { return Ok(Some("accepted with one prefix declared twice on one element".to_string())); }
                    }
                    Ok(None)
                }
            }
        });
        match (kind, r) {
            (_, Err(_)) => Some(format!("parse panics on {:?}", doc)),
            ("R", Ok(Ok(_))) => Some(format!("{:?} is not well-formed (or breaks a namespace constraint) but is accepted", doc)),
            ("A", Ok(Err(()))) => Some(format!("{:?} is well-formed but is rejected", doc)),
            (_, Ok(Ok(Some(d)))) => Some(format!("{:?}: {}", doc, d)),
            _ => None,
        }
    }

    /// level_order against a reference breadth-first traversal built from `children`
    pub fn level_order(input: &str) -> Option<String> {
        let f: Vec<&str> = input.split(' ').collect();
        let docs = ["<a><b><d/><e/></b><c><f/></c></a>", "<a>t<b x='1'><c/>u</b><!--k--><d><e><f/></e></d></a>", "<a/>"];
        let mut xot = Xot::new();
        let root = xot.parse(docs[f[0].parse::<usize>().ok()? % docs.len()]).ok()?;
        let nodes: Vec<_> = xot.descendants(root).collect();
        let start = *nodes.get(f[1].parse::<usize>().ok()?)?;
        use xot::LevelOrder;
        let got: Vec<String> = xot.level_order(start).map(|lo| match lo { LevelOrder::Node(n) => format!("N{}", nodes.iter().position(|x| *x == n).unwrap()), LevelOrder::End => "E".to_string() }).collect();
        // reference: start as its own sequence, then the child sequences of every node in breadth-first order
        let mut want = vec![format!("N{}", nodes.iter().position(|x| *x == start).unwrap()), "E".to_string()];
        let mut queue = std::collections::VecDeque::new();
        queue.push_back(start);
        while let Some(n) = queue.pop_front() {
            let kids: Vec<_> = xot.children(n).collect();
            if kids.is_empty() { continue; }
            for k in &kids { want.push(format!("N{}", nodes.iter().position(|x| x == k).unwrap())); queue.push_back(*k); }
            want.push("E".to_string());
        }
        if got != want { Some(format!("level_order from node {} of document {}: {:?}, expected {:?}", f[1], f[0], got, want)) } else { None }
    }
}

// (C20) fixed::Document::xotify: leading and trailing content end up before / after the document element, in order
#[allow(dead_code)]
fn c20_fixed_doc(input: &str) -> Option<String> {
    use xot::fixed;
    let f: Vec<&str> = input.split(' ').collect();
    let (nb, na): (usize, usize) = (f[0].parse().ok()?, f[1].parse().ok()?);
    let mk = |tag: &str, i: usize| if i % 2 == 0 { fixed::DocumentContent::Comment(format!("{}{}", tag, i)) } else {
        fixed::DocumentContent::ProcessingInstruction(fixed::ProcessingInstruction { target: format!("{}{}", tag, i), content: None }) };
    let doc = fixed::Document {
        before: (0..nb).map(|i| mk("b", i)).collect(),
        document_element: fixed::Element { name: fixed::Name { namespace: "".into(), localname: "e".into() }, prefixes: vec![], attributes: vec![], children: vec![fixed::Content::Text("t".into())] },
        after: (0..na).map(|i| mk("a", i)).collect(),
    };
    let mut xot = Xot::new();
    let d = doc.xotify(&mut xot);
    let got = xot.to_string(d).ok()?;
    let show = |tag: &str, i: usize| if i % 2 == 0 { format!("<!--{}{}-->", tag, i) } else { format!("<?{}{}?>", tag, i) };
    let want: String = (0..nb).map(|i| show("b", i)).collect::<String>() + "<e>t</e>" + &(0..na).map(|i| show("a", i)).collect::<String>();
    if got != want { Some(format!("xotify gives {:?}, expected {:?}", got, want)) } else { None }
}

// (C20) the same abstract document built by parse, by fixed::xotify and by several stepwise orders is the same tree
#[allow(dead_code)]
mod routes {
    use xot::{fixed, Node, Xot};

    fn name(local: &str, ns: &str) -> fixed::Name { fixed::Name { namespace: ns.into(), localname: local.into() } }

    /// input: "<root flags>|<children>|<before><after>"; flags: n = declaration, a = attribute; children over
    /// e (empty element), f (element with declaration, attribute and text), t (text), c (comment), p (PI)
    pub fn doc_of(input: &str) -> Option<fixed::Document> {
        let f: Vec<&str> = input.split('|').collect();
        if f.len() != 3 { return None; }
        let mut children = Vec::new();
        for (i, ch) in f[1].chars().enumerate() {
            let c = match ch {
                'e' => fixed::Content::Element(fixed::Element { name: name("e", ""), prefixes: vec![], attributes: vec![], children: vec![] }),
                'f' => fixed::Content::Element(fixed::Element { name: name("f", "urn:q"),
                    prefixes: vec![fixed::Prefix { name: "q".into(), namespace: "urn:q".into() }, fixed::Prefix { name: "r".into(), namespace: "urn:r".into() }],
                    attributes: vec![(name("x", ""), format!("v{}", i)), (name("y", "urn:r"), "w".into())],
                    children: vec![fixed::Content::Text("u".into()), fixed::Content::Element(fixed::Element { name: name("g", ""), prefixes: vec![], attributes: vec![(name("z", ""), "1".into())], children: vec![] })] }),
                't' => fixed::Content::Text(format!("t{}", i)),
                'c' => fixed::Content::Comment(format!("c{}", i)),
                'p' => fixed::Content::ProcessingInstruction(fixed::ProcessingInstruction { target: format!("p{}", i), content: Some("d".into()) }),
                _ => return None,
            };
            // two adjacent text contents denote their concatenation (every route consolidates them into one text node)
            children.push(c);
        }
        let root = fixed::Element { name: name("a", if f[0].contains('n') { "urn:p" } else { "" }),
            prefixes: if f[0].contains('n') { vec![fixed::Prefix { name: "p".into(), namespace: "urn:p".into() }] } else { vec![] },
            attributes: if f[0].contains('a') { vec![(name("id", ""), "d1".into())] } else { vec![] }, children };
        let dc = |ch: char, i: usize| match ch { 'c' => Some(fixed::DocumentContent::Comment(format!("k{}", i))),
            'p' => Some(fixed::DocumentContent::ProcessingInstruction(fixed::ProcessingInstruction { target: format!("pi{}", i), content: None })), _ => None };
        let (b, a) = f[2].split_once('/')?;
        Some(fixed::Document { before: b.chars().enumerate().filter_map(|(i, c)| dc(c, i)).collect(), document_element: root,
            after: a.chars().enumerate().filter_map(|(i, c)| dc(c, i + 10)).collect() })
    }

    fn render_el(e: &fixed::Element, scope: &mut Vec<(String, String)>, out: &mut String) {
        let n0 = scope.len();
        for p in &e.prefixes { scope.push((p.name.clone(), p.namespace.clone())); }
        let qn = |n: &fixed::Name, scope: &Vec<(String, String)>| if n.namespace.is_empty() { n.localname.clone() } else {
            let p = scope.iter().rev().find(|(_, u)| *u == n.namespace).map(|(p, _)| p.clone()).unwrap(); format!("{}:{}", p, n.localname) };
        out.push('<'); out.push_str(&qn(&e.name, scope));
        for p in &e.prefixes { out.push_str(&format!(" xmlns:{}=\"{}\"", p.name, p.namespace)); }
        for (n, v) in &e.attributes { out.push_str(&format!(" {}=\"{}\"", qn(n, scope), v)); }
        if e.children.is_empty() { out.push_str("/>"); } else {
            out.push('>');
            for c in &e.children { match c {
                fixed::Content::Text(t) => out.push_str(t),
                fixed::Content::Comment(t) => out.push_str(&format!("<!--{}-->", t)),
                fixed::Content::ProcessingInstruction(p) => out.push_str(&format!("<?{}{}?>", p.target, p.content.as_ref().map(|c| format!(" {}", c)).unwrap_or_default())),
                fixed::Content::Element(e) => render_el(e, scope, out),
            } }
            out.push_str(&format!("</{}>", qn(&e.name, scope)));
        }
        scope.truncate(n0);
    }
    pub fn render(d: &fixed::Document) -> String {
        let mut out = String::new();
        let dc = |c: &fixed::DocumentContent| match c { fixed::DocumentContent::Comment(t) => format!("<!--{}-->", t),
            fixed::DocumentContent::ProcessingInstruction(p) => format!("<?{}?>", p.target) };
        for c in &d.before { out.push_str(&dc(c)); }
        render_el(&d.document_element, &mut Vec::new(), &mut out);
        for c in &d.after { out.push_str(&dc(c)); }
        out
    }

    #[derive(Clone, Copy, Debug)]
    pub enum Order { TopDownAppend, BottomUpAppend, RightToLeftPrepend, RightToLeftInsertBefore, DeclarationsLast }

    fn decorate(xot: &mut Xot, el: Node, e: &fixed::Element) {
        for p in &e.prefixes { let pi = xot.add_prefix(&p.name); let ni = xot.add_namespace(&p.namespace); xot.namespaces_mut(el).insert(pi, ni); }
        for (n, v) in &e.attributes { let ni = n.xotify(xot); xot.attributes_mut(el).insert(ni, v.clone()); }
    }
    fn leaf(xot: &mut Xot, c: &fixed::Content) -> Option<Node> {
        match c { fixed::Content::Text(t) => Some(xot.new_text(t)), fixed::Content::Comment(t) => Some(xot.new_comment(t)),
            fixed::Content::ProcessingInstruction(p) => { let t = xot.add_name(&p.target); Some(xot.new_processing_instruction(t, p.content.as_deref())) }
            fixed::Content::Element(_) => None }
    }
    /// builds the element; if `parent` is given the element is linked below it by `link` before or after its
    /// content is built, depending on the order
    fn build(xot: &mut Xot, e: &fixed::Element, order: Order) -> Result<Node, xot::Error> {
        let nm = e.name.xotify(xot);
        let el = xot.new_element(nm);
        if !matches!(order, Order::DeclarationsLast) { decorate(xot, el, e); }
        match order {
            Order::TopDownAppend | Order::DeclarationsLast => {
                for c in &e.children { match c { fixed::Content::Element(ce) => {
                        // top-down: the child is linked first and filled afterwards
                        let cn = ce.name.xotify(xot); let cel = xot.new_element(cn); xot.append(el, cel)?;
                        let filled = build(xot, ce, order)?; xot.replace(cel, filled)?; }
                    other => { let n = leaf(xot, other).unwrap(); xot.append(el, n)?; } } }
            }
            Order::BottomUpAppend => {
                let mut built = Vec::new();
                for c in &e.children { built.push(match c { fixed::Content::Element(ce) => build(xot, ce, order)?, other => leaf(xot, other).unwrap() }); }
                for n in built { xot.append(el, n)?; }
            }
            Order::RightToLeftPrepend => {
                for c in e.children.iter().rev() { let n = match c { fixed::Content::Element(ce) => build(xot, ce, order)?, other => leaf(xot, other).unwrap() }; xot.prepend(el, n)?; }
            }
            Order::RightToLeftInsertBefore => {
                let mut reference: Option<Node> = None;
                for c in e.children.iter().rev() {
                    let n = match c { fixed::Content::Element(ce) => build(xot, ce, order)?, other => leaf(xot, other).unwrap() };
                    match reference { None => xot.append(el, n)?, Some(r) => xot.insert_before(r, n)? }
                    reference = Some(n);
                }
            }
        }
        if matches!(order, Order::DeclarationsLast) { decorate(xot, el, e); }
        Ok(el)
    }
    /// the abstract document: adjacent text contents are one text node (the stepwise routes create it as one node; the
    /// fixed:: route is handed the pieces and has to consolidate them itself)
    fn merged(e: &fixed::Element) -> fixed::Element {
        let mut children: Vec<fixed::Content> = Vec::new();
        for c in &e.children {
            match (children.last_mut(), c) {
                (Some(fixed::Content::Text(prev)), fixed::Content::Text(t)) => prev.push_str(t),
                (_, fixed::Content::Element(ce)) => children.push(fixed::Content::Element(merged(ce))),
                (_, other) => children.push(other.clone()),
            }
        }
        fixed::Element { name: e.name.clone(), prefixes: e.prefixes.clone(), attributes: e.attributes.clone(), children }
    }
    fn build_doc(xot: &mut Xot, d: &fixed::Document, order: Order) -> Result<Node, xot::Error> {
        let root = merged(&d.document_element);
        let el = build(xot, &root, order)?;
        let doc = xot.new_document_with_element(el)?;
        let dc = |xot: &mut Xot, c: &fixed::DocumentContent| match c { fixed::DocumentContent::Comment(t) => xot.new_comment(t),
            fixed::DocumentContent::ProcessingInstruction(p) => { let t = xot.add_name(&p.target); xot.new_processing_instruction(t, p.content.as_deref()) } };
        match order {
            Order::RightToLeftPrepend => { for c in d.before.iter().rev() { let n = dc(xot, c); xot.prepend(doc, n)?; } for c in &d.after { let n = dc(xot, c); xot.append(doc, n)?; } }
            _ => { for c in &d.before { let n = dc(xot, c); xot.insert_before(el, n)?; } for c in d.after.iter().rev() { let n = dc(xot, c); xot.insert_after(el, n)?; } }
        }
        Ok(doc)
    }

    fn decls(xot: &Xot, root: Node) -> Vec<Vec<(String, String)>> {
        xot.descendants(root).filter(|n| xot.is_element(*n)).map(|n| xot.namespaces(n).iter().map(|(p, u)| (xot.prefix_str(p).to_string(), xot.namespace_str(*u).to_string())).collect()).collect()
    }

    pub fn check(input: &str) -> Option<String> {
        let d = doc_of(input)?;
        let text = render(&d);
        let mut xot = Xot::new();
        let parsed = match xot.parse(&text) { Ok(n) => n, Err(e) => return Some(format!("rendering {:?} does not parse: {:?}", text, e)) };
        let want = xot.to_string(parsed).ok()?;
        let want_decls = decls(&xot, parsed);
        let fixedn = d.xotify(&mut xot);
        let mut routes: Vec<(String, Node)> = vec![("fixed::Document::xotify".into(), fixedn)];
        for order in [Order::TopDownAppend, Order::BottomUpAppend, Order::RightToLeftPrepend, Order::RightToLeftInsertBefore, Order::DeclarationsLast] {
            match build_doc(&mut xot, &d, order) { Ok(n) => routes.push((format!("stepwise {:?}", order), n)), Err(e) => return Some(format!("stepwise {:?} of {:?} fails: {:?}", order, text, e)) }
        }
        for (label, n) in routes {
            let got = match xot.to_string(n) { Ok(s) => s, Err(e) => return Some(format!("{} of {:?} does not serialise: {:?}", label, text, e)) };
            if got != want { return Some(format!("{}: serialises as {:?}, the parsed document as {:?}", label, got, want)); }
            if !xot.deep_equal(parsed, n) || !xot.deep_equal(n, parsed) { return Some(format!("{} of {:?} is not deep-equal to the parsed document", label, text)); }
            if decls(&xot, n) != want_decls { return Some(format!("{} of {:?}: declarations {:?}, parsed {:?}", label, text, decls(&xot, n), want_decls)); }
        }
        None
    }

    pub fn inputs(large: bool) -> Vec<String> {
        let kinds = ['e', 'f', 't', 'c', 'p'];
        let mut seqs: Vec<String> = vec![String::new()];
        let mut frontier = seqs.clone();
        for _ in 0..(if large { 4 } else { 3 }) {
            let mut next = Vec::new();
            for s in &frontier { for k in kinds { next.push(format!("{}{}", s, k)); } }
            seqs.extend(next.iter().cloned());
            frontier = next;
        }
        let mut v = Vec::new();
        for flags in ["", "n", "a", "na"] { for s in &seqs { for ba in ["/", "c/", "/p", "cp/pc", "p/cc"] {
            if !large && ba.len() > 2 && s.len() > 2 { continue; }
            v.push(format!("{}|{}|{}", flags, s, ba));
        }}}
        v
    }
}

// (C13) deep_equal and its variants against equality of independently computed canonical forms
#[allow(dead_code)]
mod deepeq {
    use xot::{Node, Xot};

    /// the family of small documents compared pairwise; they differ in exactly the features the property lists
    pub fn docs() -> Vec<&'static str> {
        vec![
            "<e/>", "<f/>", "<e x=\"1\"/>", "<e x=\"2\"/>", "<e y=\"1\"/>", "<e x=\"1\" y=\"2\"/>", "<e y=\"2\" x=\"1\"/>", "<e x=\"1\" y=\"3\"/>",
            "<e y=\"2\" x=\"1\" z=\"3\"/>", "<e x=\"1\" y=\"2\" z=\"3\"/>", "<e z=\"3\" y=\"2\" x=\"1\"/>", "<e z=\"3\" x=\"1\"/>", "<e x=\"1\" z=\"3\"/>",
            "<e>t</e>", "<e>u</e>", "<e><!--c--></e>", "<e><!--d--></e>", "<e><?p d?></e>", "<e><?p?></e>", "<e><?q d?></e>", "<e>t<!--c--></e>", "<e><!--c-->t</e>",
            "<e><a/><b/></e>", "<e><b/><a/></e>", "<e><a/></e>", "<e><a/><b/><a/></e>", "<e><a x=\"1\" y=\"2\"/></e>", "<e><a y=\"2\" x=\"1\"/></e>", "<e><a y=\"2\" x=\"1\" z=\"3\"/></e>", "<e><a><b/></a></e>", "<e><a/><b/><!--c--></e>",
            "<p:e xmlns:p=\"urn:1\"/>", "<q:e xmlns:q=\"urn:1\"/>", "<e xmlns=\"urn:1\"/>", "<p:e xmlns:p=\"urn:2\"/>", "<e xmlns:p=\"urn:1\"/>",
            "<e xmlns:p=\"urn:1\" p:x=\"1\"/>", "<e xmlns:q=\"urn:1\" q:x=\"1\"/>", "<e xmlns:p=\"urn:2\" p:x=\"1\"/>", "<e xmlns:p=\"urn:1\" p:x=\"1\" x=\"1\"/>", "<e xmlns:p=\"urn:1\" x=\"1\" p:x=\"1\"/>",
            // one a proper prefix of the other (as a child sequence, as a text sequence, as an element sequence)
            "<e>t<a/>u</e>", "<e>t<a/></e>", "<e><a/>t</e>",
            // nested elements of the same name / shape (compared with each other inside one document as well)
            "<p><p/></p>", "<d><e><f/></e></d>", "<e><a><b/></a><a><b/></a></e>",
            // fragments ("F:"): several nodes directly under the document node
            "F:<a/>", "F:<a/><b/>", "F:<a/><b/>t", "F:t", "F:t<a/>", "F:<a/><!--c--><b/>", "F:<a/>t<b/>u",
        ]
    }

    /// canonical form: kind, expanded names, sorted attribute set, content, child sequence; prefixes and declarations dropped
    pub fn canon(xot: &Xot, n: Node, xpath: bool) -> String {
        use xot::Value::*;
        match xot.value(n) {
            Document => format!("D[{}]", kids(xot, n, xpath)),
            Element(e) => { let (l, u) = xot.name_ns_str(e.name());
                let mut at: Vec<String> = xot.attributes(n).iter().map(|(k, v)| { let (l, u) = xot.name_ns_str(k); format!("{{{}}}{}={:?}", u, l, v) }).collect();
                at.sort();
                format!("E{{{}}}{}({})[{}]", u, l, at.join(","), kids(xot, n, xpath)) }
            Text(t) => format!("T{:?}", t.get()),
            Comment(c) => format!("C{:?}", c.get()),
            ProcessingInstruction(p) => { let (l, u) = xot.name_ns_str(p.target()); format!("P{{{}}}{}:{:?}", u, l, p.data()) }
            Attribute(a) => { let (l, u) = xot.name_ns_str(a.name()); format!("A{{{}}}{}={:?}", u, l, a.value()) }
            Namespace(ns) => format!("N{}={}", xot.prefix_str(ns.prefix()), xot.namespace_str(ns.namespace())),
        }
    }
    fn kids(xot: &Xot, n: Node, xpath: bool) -> String {
        xot.children(n).filter(|c| !xpath || xot.is_element(*c) || xot.is_text(*c)).map(|c| canon(xot, c, xpath)).collect::<Vec<_>>().join(";")
    }

    fn load(xot: &mut Xot, d: &str) -> Option<Node> {
        if let Some(f) = d.strip_prefix("F:") { xot.parse_fragment(f).ok() } else { xot.parse(d).ok() }
    }
    /// the element structure below (or at) n, everything else dropped
    fn elems(xot: &Xot, n: Node) -> String {
        let inner = xot.children(n).map(|c| elems(xot, c)).filter(|s| !s.is_empty()).collect::<Vec<_>>().join(";");
        match xot.value(n) {
            xot::Value::Element(_) => { let c = canon(xot, n, false); let head = c.split('[').next().unwrap_or("").to_string(); format!("{}[{}]", head, inner) }
            xot::Value::Document => inner,
            _ => String::new(),
        }
    }

    pub fn check(input: &str) -> Option<String> {
        let (i, j) = input.split_once(' ')?;
        let (i, j): (usize, usize) = (i.parse().ok()?, j.parse().ok()?);
        let ds = docs();
        let mut xot = Xot::new();
        let ra = load(&mut xot, ds.get(i)?)?;
        let rb = load(&mut xot, ds.get(j)?)?;
        let mut pairs = vec![("documents", ra, rb)];
        if let (Ok(ea), Ok(eb)) = (xot.document_element(ra), xot.document_element(rb)) {
            if !ds[i].starts_with("F:") && !ds[j].starts_with("F:") { pairs.push(("document elements", ea, eb)); }
        }
        for (what, a, b) in pairs {
            let same = canon(&xot, a, false) == canon(&xot, b, false);
            if xot.deep_equal(a, b) != same { return Some(format!("deep_equal({}, {}) on the {} is {}, canonical forms are {}", ds[i], ds[j], what, !same, if same { "equal" } else { "different" })); }
            if xot.deep_equal(a, b) != xot.deep_equal(b, a) { return Some(format!("deep_equal({}, {}) on the {} is not symmetric", ds[i], ds[j], what)); }
            let same_x = canon(&xot, a, true) == canon(&xot, b, true);
            if xot.deep_equal_xpath(a, b, |x, y| x == y) != same_x { return Some(format!("deep_equal_xpath({}, {}) on the {} is {}, canonical forms without comments and PIs are {}", ds[i], ds[j], what, !same_x, if same_x { "equal" } else { "different" })); }
            let same_c = kids(&xot, a, false) == kids(&xot, b, false);
            if xot.deep_equal_children(a, b) != same_c { return Some(format!("deep_equal_children({}, {}) on the {} is {}, child sequences are {}", ds[i], ds[j], what, !same_c, if same_c { "equal" } else { "different" })); }
            if xot.advanced_deep_equal(a, b, |_| true, |x, y| x == y) != same { return Some(format!("advanced_deep_equal({}, {}) with the trivial filter disagrees with canonical forms", ds[i], ds[j])); }
            // filters that drop the compared nodes themselves: text nodes only / elements only
            let texts = |n: Node| -> Vec<String> { xot.descendants(n).filter_map(|d| xot.text_str(d).map(|t| t.to_string())).collect() };
            let same_t = texts(a) == texts(b);
            if xot.advanced_deep_equal(a, b, |n| xot.is_text(n), |x, y| x == y) != same_t { return Some(format!("advanced_deep_equal({}, {}) on the {} with a text-only filter is {}, the text sequences are {}", ds[i], ds[j], what, !same_t, if same_t { "equal" } else { "different" })); }
            let same_e = elems(&xot, a) == elems(&xot, b);
            if xot.advanced_deep_equal(a, b, |n| xot.is_element(n), |x, y| x == y) != same_e { return Some(format!("advanced_deep_equal({}, {}) on the {} with an elements-only filter is {}, the element structures are {}", ds[i], ds[j], what, !same_e, if same_e { "equal" } else { "different" })); }
        }
        // attribute nodes, namespace nodes and the document node against its document element
        {
            let abn = |xot: &Xot, r: Node| -> Vec<Node> { xot.all_descendants(r).filter(|n| xot.is_attribute_node(*n) || xot.is_namespace_node(*n)).collect() };
            let (xa, xb) = (abn(&xot, ra), abn(&xot, rb));
            for x in &xa { for y in &xb {
                let same = canon(&xot, *x, false) == canon(&xot, *y, false);
                if xot.deep_equal(*x, *y) != same { return Some(format!("deep_equal on an attribute / namespace node of {} and one of {} is {}, canonical forms {} / {}", ds[i], ds[j], !same, canon(&xot, *x, false), canon(&xot, *y, false))); }
                if xot.deep_equal_xpath(*x, *y, |p, q| p == q) != same { return Some(format!("deep_equal_xpath on an attribute / namespace node of {} and one of {} is {}, canonical forms {} / {}", ds[i], ds[j], !same, canon(&xot, *x, false), canon(&xot, *y, false))); }
            }}
            if let Ok(eb) = xot.document_element(rb) {
                if xot.deep_equal(ra, eb) || xot.deep_equal_xpath(ra, eb, |p, q| p == q) { return Some(format!("the document node of {} is reported deep-equal to the document element of {}", ds[i], ds[j])); }
            }
        }
        // every pair of elements inside one document (ancestor / descendant pairs included)
        if i == j {
            let els: Vec<Node> = xot.descendants(ra).filter(|n| xot.is_element(*n)).collect();
            for x in &els { for y in &els {
                let same = canon(&xot, *x, false) == canon(&xot, *y, false);
                if xot.deep_equal(*x, *y) != same { return Some(format!("deep_equal on two elements of {} is {}, canonical forms are {}", ds[i], !same, if same { "equal" } else { "different" })); }
                let same_c = kids(&xot, *x, false) == kids(&xot, *y, false);
                if xot.deep_equal_children(*x, *y) != same_c { return Some(format!("deep_equal_children on two elements of {} (one may contain the other) is {}, child sequences are {}", ds[i], !same_c, if same_c { "equal" } else { "different" })); }
                let same_x = canon(&xot, *x, true) == canon(&xot, *y, true);
                if xot.deep_equal_xpath(*x, *y, |p, q| p == q) != same_x { return Some(format!("deep_equal_xpath on two elements of {} disagrees with canonical forms", ds[i])); }
            }}
        }
        // string_value: concatenation of descendant text in document order
        let text: String = xot.descendants(ra).filter_map(|n| xot.text_str(n)).collect();
        if xot.string_value(ra) != text { return Some(format!("string_value of {} is {:?}, descendant text is {:?}", ds[i], xot.string_value(ra), text)); }
        None
    }

    pub fn inputs() -> Vec<String> {
        let n = docs().len();
        let mut v = Vec::new();
        for i in 0..n { for j in 0..n { v.push(format!("{} {}", i, j)); } }
        v
    }
}

// (C08) name / namespace / prefix tables against a reference list of registered strings
#[allow(dead_code)]
fn c08_id_tables(input: &str) -> Option<String> {
    // input: "<n> <stride> <via>": n strings registered in the order i*stride mod n, every third one twice;
    // via = api | parse (names registered implicitly by parsing a document that uses them)
    let f: Vec<&str> = input.split(' ').collect();
    let (n, stride): (usize, usize) = (f[0].parse().ok()?, f[1].parse().ok()?);
    let mut xot = Xot::new();
    let builtin = [xot.no_namespace(), xot.xml_namespace()];
    if builtin[0] == builtin[1] { return Some("built-in namespaces are not distinct".into()); }
    if xot.namespace_str(xot.no_namespace()) != "" || xot.namespace_str(xot.xml_namespace()) != "http://www.w3.org/XML/1998/namespace" { return Some("built-in namespaces do not resolve to their standard strings".into()); }
    if xot.prefix_str(xot.empty_prefix()) != "" || xot.prefix_str(xot.xml_prefix()) != "xml" || xot.empty_prefix() == xot.xml_prefix() { return Some("built-in prefixes wrong".into()); }
    if xot.name_ns_str(xot.xml_space_name()) != ("space", "http://www.w3.org/XML/1998/namespace") || xot.name_ns_str(xot.xml_id_name()) != ("id", "http://www.w3.org/XML/1998/namespace") || xot.xml_space_name() == xot.xml_id_name() { return Some("built-in names wrong".into()); }
    let mut names: Vec<(String, String, xot::NameId)> = Vec::new();
    let mut nss: Vec<(String, xot::NamespaceId)> = Vec::new();
    let mut pres: Vec<(String, xot::PrefixId)> = Vec::new();
    let order: Vec<usize> = (0..n).map(|i| (i * stride) % n).collect();
    for (step, i) in order.iter().enumerate() {
        // two of seven names go into the built-in namespaces (the XML namespace, no namespace)
        let uri = match i % 7 { 5 => "http://www.w3.org/XML/1998/namespace".to_string(), 6 => String::new(), k => format!("urn:ns{}", k % 5) };
        let (local, pre) = (format!("n{}", i), format!("p{}", i));
        // read-only lookups find exactly what has been registered
        let known = names.iter().find(|(l, u, _)| *l == local && *u == uri).map(|x| x.2);
        if let Some(nsid) = xot.namespace(&uri) { if xot.name_ns(&local, nsid) != known { return Some(format!("step {}: name_ns({:?}, {:?}) = {:?} before registration, expected {:?}", step, local, uri, xot.name_ns(&local, nsid), known)); } }
        let (nsid, nid, pid) = if f[2] == "parse" && i % 7 == 5 {
            let root = xot.parse(&format!("<d xml:{}=\"v\"/>", local)).ok()?;
            let de = xot.document_element(root).ok()?;
            let nid = xot.attributes(de).keys().next()?;
            (xot.namespace_for_name(nid), nid, xot.add_prefix(&pre))
        } else if f[2] == "parse" && i % 7 == 6 {
            let root = xot.parse(&format!("<{}/>", local)).ok()?;
            let de = xot.document_element(root).ok()?;
            let nid = xot.element(de)?.name();
            (xot.namespace_for_name(nid), nid, xot.add_prefix(&pre))
        } else if f[2] == "parse" {
            let doc = format!("<{}:{} xmlns:{}=\"{}\"/>", pre, local, pre, uri);
            let root = xot.parse(&doc).ok()?;
            let de = xot.document_element(root).ok()?;
            let nid = xot.element(de)?.name();
            (xot.namespace_for_name(nid), nid, xot.prefix(&pre)?)
        } else {
            let nsid = xot.add_namespace(&uri);
            (nsid, xot.add_name_ns(&local, nsid), xot.add_prefix(&pre))
        };
        for (what, ok) in [("namespace", nss.iter().all(|(u, id)| (*u == uri) == (*id == nsid))), ("name", names.iter().all(|(l, u, id)| (*l == local && *u == uri) == (*id == nid))), ("prefix", pres.iter().all(|(p, id)| (*p == pre) == (*id == pid)))] {
            if !ok { return Some(format!("step {} ({} #{}): the {} id coincides with the id of a different string, or differs from the id of the same string", step, f[2], i, what)); }
        }
        if !nss.iter().any(|(u, _)| *u == uri) { nss.push((uri.clone(), nsid)); }
        if !names.iter().any(|(l, u, _)| *l == local && *u == uri) { names.push((local.clone(), uri.clone(), nid)); }
        if !pres.iter().any(|(p, _)| *p == pre) { pres.push((pre.clone(), pid)); }
        // registering again gives the same id; every earlier id still means the same string and is found by the lookups
        if step % 3 == 0 && (xot.add_name_ns(&local, nsid) != nid || xot.add_namespace(&uri) != nsid || xot.add_prefix(&pre) != pid) { return Some(format!("step {}: registering #{} again gives a different id", step, i)); }
        for (l, u, id) in &names {
            if xot.name_ns_str(*id) != (l.as_str(), u.as_str()) { return Some(format!("step {}: name id of {{{}}}{} now resolves to {:?}", step, u, l, xot.name_ns_str(*id))); }
            let nsid = xot.namespace(u)?;
            if xot.name_ns(l, nsid) != Some(*id) { return Some(format!("step {}: name_ns({:?}, {:?}) = {:?}, registered as {:?}", step, l, u, xot.name_ns(l, nsid), id)); }
        }
        for (u, id) in &nss { if xot.namespace_str(*id) != u || xot.namespace(u) != Some(*id) { return Some(format!("step {}: namespace {:?}: lookup {:?}, id resolves to {:?}", step, u, xot.namespace(u), xot.namespace_str(*id))); } }
        for (p2, id) in &pres { if xot.prefix_str(*id) != p2 || xot.prefix(p2) != Some(*id) { return Some(format!("step {}: prefix {:?}: lookup {:?}, id resolves to {:?}", step, p2, xot.prefix(p2), xot.prefix_str(*id))); } }
        if xot.name_ns("never-registered", nsid).is_some() || xot.prefix("never-registered").is_some() || xot.namespace("urn:never-registered").is_some() { return Some("a read-only lookup finds a string that was never registered".into()); }
    }
    // ids keep their meaning in a clone
    let copy = xot.clone();
    for (l, u, id) in &names { if copy.name_ns_str(*id) != (l.as_str(), u.as_str()) { return Some("a name id means something else in the cloned Xot".into()); } }
    None
}

// (C11) attribute and namespace views against a reference insertion-ordered map
#[allow(dead_code)]
fn c11_node_map(input: &str) -> Option<String> {
    // input: op letters with a key digit each, e.g. "i0i1r0n1": i = insert key, r = remove key, u = update through get_mut,
    // n = append an attribute node created for key (any_append), m = re-append the element's own node for key,
    // o = append the node that sits on a second element under key, c = clear, e = entry(key).or_insert
    let mut xot = Xot::new();
    let keys: Vec<xot::NameId> = ["k0", "k1", "k2"].iter().map(|k| xot.add_name(k)).collect();
    let pres: Vec<xot::PrefixId> = ["p0", "p1", "p2"].iter().map(|k| xot.add_prefix(k)).collect();
    let uris: Vec<xot::NamespaceId> = (0..8).map(|i| xot.add_namespace(&format!("urn:{}", i))).collect();
    let root = xot.parse("<d><e><c/></e><f k0=\"F0\" k1=\"F1\" k2=\"F2\" xmlns:p0=\"urn:7\" xmlns:p1=\"urn:7\" xmlns:p2=\"urn:7\"/></d>").ok()?;
    let d = xot.document_element(root).ok()?;
    let e = xot.first_child(d)?;
    let other = xot.next_sibling(e)?;
    let mut ra: Vec<(usize, String)> = Vec::new();      // reference attribute map
    let mut rn: Vec<(usize, usize)> = Vec::new();       // reference namespace map: prefix index -> uri index
    let mut other_a: Vec<usize> = vec![0, 1, 2];
    let cs: Vec<char> = input.chars().collect();
    let mut step = 0;
    let mut counter = 0usize;
    while step + 1 < cs.len() {
        let (op, k) = (cs[step], cs[step + 1].to_digit(10)? as usize % 3);
        counter += 1;
        let val = format!("v{}", counter);
        let uri = counter % 7;
        match op {
            'i' => { xot.attributes_mut(e).insert(keys[k], val.clone()); xot.namespaces_mut(e).insert(pres[k], uris[uri]);
                     match ra.iter_mut().find(|x| x.0 == k) { Some(x) => x.1 = val, None => ra.push((k, val)) }
                     match rn.iter_mut().find(|x| x.0 == k) { Some(x) => x.1 = uri, None => rn.push((k, uri)) } }
            'r' => { let got = xot.attributes_mut(e).remove(keys[k]); let want = ra.iter().find(|x| x.0 == k).map(|x| x.1.clone());
                     if got != want { return Some(format!("{}: remove returned {:?}, reference {:?}", &input[..step + 2], got, want)); }
                     ra.retain(|x| x.0 != k); xot.namespaces_mut(e).remove(pres[k]); rn.retain(|x| x.0 != k); }
            'u' => { if let Some(v) = xot.attributes_mut(e).get_mut(keys[k]) { *v = val.clone(); } if let Some(x) = ra.iter_mut().find(|x| x.0 == k) { x.1 = val; } }
            'n' => { let node = xot.new_attribute_node(keys[k], val.clone()); xot.any_append(e, node).ok()?;
                     match ra.iter_mut().find(|x| x.0 == k) { Some(x) => x.1 = val, None => ra.push((k, val)) } }
            'm' => { if let Some(node) = xot.attributes(e).get_node(keys[k]) { let before = xot.attributes(e).get_node(keys[k]);
                        let r = xot.append_attribute_node(e, node).ok()?;
                        if Some(r) != before || xot.is_removed(r) { return Some(format!("{}: re-appending the element's own attribute node returns {:?} (removed: {})", &input[..step + 2], r, xot.is_removed(r))); } } }
            'o' => { if let Some(node) = xot.attributes(other).get_node(keys[k]) {
                        let v = xot.attributes(other).get(keys[k])?.clone();
                        let existed = ra.iter().any(|x| x.0 == k);
                        xot.append_attribute_node(e, node).ok()?;
                        match ra.iter_mut().find(|x| x.0 == k) { Some(x) => x.1 = v, None => ra.push((k, v)) }
                        if !existed { other_a.retain(|x| *x != k); }     // the node moved; with an existing key only the value is copied
                        let got: Vec<usize> = xot.attributes(other).keys().map(|n| keys.iter().position(|x| *x == n).unwrap()).collect();
                        if got != other_a { return Some(format!("{}: the attribute map of the other element is now {:?}, expected {:?}", &input[..step + 2], got, other_a)); } } }
            'c' => { xot.attributes_mut(e).clear(); ra.clear(); }
            'e' => { xot.attributes_mut(e).entry(keys[k]).or_insert(val.clone()); if !ra.iter().any(|x| x.0 == k) { ra.push((k, val)); } }
            _ => return None,
        }
        step += 2;
        let here = &input[..step];
        // every accessor of both views against the reference
        let want: Vec<(xot::NameId, String)> = ra.iter().map(|(k, v)| (keys[*k], v.clone())).collect();
        let ro = xot.attributes(e);
        if ro.len() != want.len() || ro.is_empty() != want.is_empty() { return Some(format!("{}: len {} / is_empty {}, reference has {} entries", here, ro.len(), ro.is_empty(), want.len())); }
        if ro.to_vec() != want { return Some(format!("{}: to_vec {:?}, reference {:?}", here, ro.to_vec(), want)); }
        if ro.keys().collect::<Vec<_>>() != want.iter().map(|x| x.0).collect::<Vec<_>>() || ro.values().cloned().collect::<Vec<_>>() != want.iter().map(|x| x.1.clone()).collect::<Vec<_>>() { return Some(format!("{}: keys / values disagree with the reference", here)); }
        if ro.iter().map(|(k, v)| (k, v.clone())).collect::<Vec<_>>() != want { return Some(format!("{}: iter disagrees with the reference", here)); }
        let nodes: Vec<_> = ro.nodes().collect();
        if nodes.len() != want.len() || nodes.iter().any(|n| xot.is_removed(*n)) { return Some(format!("{}: nodes() has {} nodes (reference {}), or hands out a removed node", here, nodes.len(), want.len())); }
        for (i, k) in keys.iter().enumerate() {
            let w = ra.iter().find(|x| x.0 == i).map(|x| &x.1);
            if ro.get(*k) != w || ro.contains_key(*k) != w.is_some() { return Some(format!("{}: get / contains_key of k{} = {:?}, reference {:?}", here, i, ro.get(*k), w)); }
            let pos = ra.iter().position(|x| x.0 == i);
            if ro.get_node(*k) != pos.map(|p| nodes[p]) { return Some(format!("{}: get_node(k{}) is not the node at the key's position", here, i)); }
        }
        let hm = ro.to_hashmap();
        if hm.len() != want.len() || want.iter().any(|(k, v)| hm.get(k) != Some(v)) { return Some(format!("{}: to_hashmap disagrees with the reference", here)); }
        let (ml, me, mv) = { let m = xot.attributes_mut(e); (m.len(), m.is_empty(), m.to_vec()) };
        if ml != want.len() || me != want.is_empty() || mv != want { return Some(format!("{}: mutable view: len {} is_empty {} to_vec {:?}, reference {:?}", here, ml, me, mv, want)); }
        let wantn: Vec<(xot::PrefixId, xot::NamespaceId)> = rn.iter().map(|(k, u)| (pres[*k], uris[*u])).collect();
        if xot.namespaces(e).to_vec() != wantn || xot.namespaces(e).len() != wantn.len() { return Some(format!("{}: namespace view {:?}, reference {:?}", here, xot.namespaces(e).to_vec(), wantn)); }
        // serialisation writes declarations, then attributes, in map order
        let s = xot.to_string(e).ok()?;
        let mut wants = String::from("<e");
        for (k, u) in &rn { wants.push_str(&format!(" xmlns:p{}=\"urn:{}\"", k, u)); }
        for (k, v) in &ra { wants.push_str(&format!(" k{}=\"{}\"", k, v)); }
        wants.push_str("><c/></e>");
        if s != wants { return Some(format!("{}: serialised as {:?}, reference order gives {:?}", here, s, wants)); }
    }
    None
}

// (C07) every traversal entry point against what follows from the parent / child structure of a tree that is
// built node by node (so the structure is known independently of any navigation call)
#[allow(dead_code)]
mod navaxes {
    use xot::{Axis, Node, NodeEdge, Xot};
    /// no tree here has more than 20 nodes: an iterator that yields this many items does not terminate
    const LIMIT: usize = 500;

    pub struct T { pub kind: Vec<char>, pub parent: Vec<Option<usize>>, pub kids: Vec<Vec<usize>>, pub h: Vec<Node> }

    /// spec: D / E<ns count><attr count> / T / C / P, children in parentheses: "D(E21(TE00(CP)E01()T))"
    pub fn build(spec: &str, xot: &mut Xot) -> Option<T> {
        let cs: Vec<char> = spec.chars().collect();
        let mut t = T { kind: vec![], parent: vec![], kids: vec![], h: vec![] };
        let mut stack: Vec<usize> = Vec::new();
        let mut i = 0;
        let mut last: Option<usize> = None;
        let mut counter = 0;
        let mut add = |t: &mut T, xot: &mut Xot, k: char, parent: Option<usize>| -> usize {
            counter += 1;
            let h = match k {
                'D' => xot.new_document(), 'E' => { let n = xot.add_name(&format!("e{}", counter)); xot.new_element(n) }
                'T' => xot.new_text(&format!("t{}", counter)), 'C' => xot.new_comment(&format!("c{}", counter)),
                'P' => { let n = xot.add_name(&format!("p{}", counter)); xot.new_processing_instruction(n, None) }
                'N' => { let p = xot.add_prefix(&format!("n{}", counter)); let u = xot.add_namespace(&format!("urn:{}", counter)); xot.new_namespace_node(p, u) }
                _ => { let n = xot.add_name(&format!("a{}", counter)); xot.new_attribute_node(n, "v".to_string()) }
            };
            let id = t.kind.len();
            t.kind.push(k); t.parent.push(parent); t.kids.push(vec![]); t.h.push(h);
            if let Some(p) = parent { t.kids[p].push(id); xot.any_append(t.h[p], h).unwrap(); }
            id
        };
        while i < cs.len() {
            match cs[i] {
                '(' => { stack.push(last?); i += 1; }
                ')' => { stack.pop()?; i += 1; }
                'E' => { let (n, a) = (cs.get(i + 1)?.to_digit(10)?, cs.get(i + 2)?.to_digit(10)?);
                    let e = add(&mut t, xot, 'E', stack.last().copied());
                    for _ in 0..n { add(&mut t, xot, 'N', Some(e)); }
                    for _ in 0..a { add(&mut t, xot, 'A', Some(e)); }
                    last = Some(e); i += 3; }
                k @ ('D' | 'T' | 'C' | 'P') => { last = Some(add(&mut t, xot, k, stack.last().copied())); i += 1; }
                _ => return None,
            }
        }
        Some(t)
    }

    impl T {
        fn normal(&self, n: usize) -> bool { self.kind[n] != 'N' && self.kind[n] != 'A' }
        fn nk(&self, n: usize) -> Vec<usize> { self.kids[n].iter().copied().filter(|k| self.normal(*k)).collect() }
        fn root(&self, mut n: usize) -> usize { while let Some(p) = self.parent[n] { n = p; } n }
        fn anc(&self, n: usize) -> Vec<usize> { let mut v = vec![]; let mut c = self.parent[n]; while let Some(p) = c { v.push(p); c = self.parent[p]; } v }
        fn desc(&self, n: usize, all: bool, out: &mut Vec<usize>) { for k in if all { self.kids[n].clone() } else { self.nk(n) } { out.push(k); self.desc(k, all, out); } }
        fn order(&self, n: usize, all: bool) -> Vec<usize> { let mut v = vec![self.root(n)]; self.desc(self.root(n), all, &mut v); v }
        fn same_kind_sibs(&self, n: usize) -> Vec<usize> { match self.parent[n] { Some(p) => self.kids[p].iter().copied().filter(|k| (self.kind[*k] == 'N') == (self.kind[n] == 'N') && (self.kind[*k] == 'A') == (self.kind[n] == 'A')).collect(), None => vec![n] } }
        /// following in document order without descendants (for an attribute / namespace node: everything after it,
        /// i.e. the content of its element and what follows the element)
        fn following(&self, n: usize, all: bool) -> Vec<usize> {
            let ord = self.order(n, true);
            let mut d = vec![]; self.desc(n, true, &mut d);
            let i = ord.iter().position(|x| *x == n).unwrap();
            ord[i + 1..].iter().copied().filter(|x| !d.contains(x) && (all || self.normal(*x))).collect()
        }
        fn preceding(&self, n: usize) -> Vec<usize> {
            let ord = self.order(n, true);
            let an = self.anc(n);
            let i = ord.iter().position(|x| *x == n).unwrap();
            let mut v: Vec<usize> = ord[..i].iter().copied().filter(|x| !an.contains(x) && self.normal(*x)).collect();
            v.reverse(); v
        }
    }

    pub fn specs() -> Vec<&'static str> {
        vec!["D(E00)", "D(E21(TE00(CP)E01()T))", "D(CE11(E00(E00(E00(T))))P)", "E12(E00E10E01E00TCP)", "E00(E00(E00(E00(E00))))", "T", "D(E22(E22(T)E22)C)", "E20", "D(PE00(TCT)C)", "E01(E01(E01)E01(T))"]
    }

    pub fn check(input: &str) -> Option<String> {
        let (si, ni) = input.split_once(' ')?;
        let spec = specs().get(si.parse::<usize>().ok()?).copied()?;
        let mut xot = Xot::new();
        xot.set_text_consolidation(false);
        let t = build(spec, &mut xot)?;
        let n: usize = ni.parse().ok()?;
        if n >= t.kind.len() { return None; }
        let h = |v: Vec<usize>| -> Vec<Node> { v.into_iter().map(|i| t.h[i]).collect() };
        let name = |v: &Vec<Node>| -> String { format!("{:?}", v.iter().map(|x| t.h.iter().position(|y| y == x).map(|i| i as i64).unwrap_or(-1)).collect::<Vec<_>>()) };
        let nd = t.h[n];
        let mut checks: Vec<(&str, Vec<Node>, Vec<Node>)> = Vec::new();
        let nk = t.nk(n);
        let sibs = t.same_kind_sibs(n);
        let pos = sibs.iter().position(|x| *x == n).unwrap();
        let mut desc = vec![]; t.desc(n, false, &mut desc);
        let mut alldesc = vec![]; t.desc(n, true, &mut alldesc);
        let anc = t.anc(n);
        checks.push(("parent", xot.parent(nd).into_iter().take(LIMIT).collect(), h(t.parent[n].into_iter().collect())));
        checks.push(("first_child", xot.first_child(nd).into_iter().take(LIMIT).collect(), h(nk.first().copied().into_iter().collect())));
        checks.push(("last_child", xot.last_child(nd).into_iter().take(LIMIT).collect(), h(nk.last().copied().into_iter().collect())));
        checks.push(("next_sibling", xot.next_sibling(nd).into_iter().take(LIMIT).collect(), h(sibs.get(pos + 1).copied().into_iter().collect())));
        checks.push(("previous_sibling", xot.previous_sibling(nd).into_iter().take(LIMIT).collect(), h(if pos > 0 { vec![sibs[pos - 1]] } else { vec![] })));
        checks.push(("children", xot.children(nd).take(LIMIT).collect(), h(nk.clone())));
        checks.push(("reverse_children", xot.reverse_children(nd).take(LIMIT).collect(), h(nk.iter().rev().copied().collect())));
        checks.push(("following_siblings", xot.following_siblings(nd).take(LIMIT).collect(), h(sibs[pos..].to_vec())));
        checks.push(("preceding_siblings", xot.preceding_siblings(nd).take(LIMIT).collect(), h(sibs[..=pos].iter().rev().copied().collect())));
        checks.push(("ancestors", xot.ancestors(nd).take(LIMIT).collect(), h(std::iter::once(n).chain(anc.iter().copied()).collect())));
        checks.push(("descendants", xot.descendants(nd).take(LIMIT).collect(), h(if t.normal(n) { std::iter::once(n).chain(desc.iter().copied()).collect() } else { vec![] })));
        checks.push(("all_descendants", xot.all_descendants(nd).take(LIMIT).collect(), h(std::iter::once(n).chain(alldesc.iter().copied()).collect())));
        checks.push(("following", xot.following(nd).take(LIMIT).collect(), h(t.following(n, false))));
        checks.push(("all_following", xot.all_following(nd).take(LIMIT).collect(), h(t.following(n, true))));
        checks.push(("preceding", xot.preceding(nd).take(LIMIT).collect(), h(t.preceding(n))));
        checks.push(("root", vec![xot.root(nd)], h(vec![t.root(n)])));
        checks.push(("attribute_nodes", xot.attribute_nodes(nd).take(LIMIT).collect(), h(t.kids[n].iter().copied().filter(|k| t.kind[*k] == 'A').collect())));
        checks.push(("axis child", xot.axis(Axis::Child, nd).take(LIMIT).collect(), h(nk.clone())));
        checks.push(("axis descendant", xot.axis(Axis::Descendant, nd).take(LIMIT).collect(), h(desc.clone())));
        checks.push(("axis descendant-or-self", xot.axis(Axis::DescendantOrSelf, nd).take(LIMIT).collect(), h(if t.normal(n) { std::iter::once(n).chain(desc.iter().copied()).collect() } else { vec![] })));
        checks.push(("axis parent", xot.axis(Axis::Parent, nd).take(LIMIT).collect(), h(t.parent[n].into_iter().collect())));
        checks.push(("axis ancestor", xot.axis(Axis::Ancestor, nd).take(LIMIT).collect(), h(anc.clone())));
        checks.push(("axis ancestor-or-self", xot.axis(Axis::AncestorOrSelf, nd).take(LIMIT).collect(), h(std::iter::once(n).chain(anc.iter().copied()).collect())));
        checks.push(("axis following-sibling", xot.axis(Axis::FollowingSibling, nd).take(LIMIT).collect(), h(sibs[pos + 1..].to_vec())));
        checks.push(("axis preceding-sibling", xot.axis(Axis::PrecedingSibling, nd).take(LIMIT).collect(), h(sibs[..pos].iter().rev().copied().collect())));
        checks.push(("axis following", xot.axis(Axis::Following, nd).take(LIMIT).collect(), h(t.following(n, false))));
        checks.push(("axis preceding", xot.axis(Axis::Preceding, nd).take(LIMIT).collect(), h(t.preceding(n))));
        checks.push(("axis attribute", xot.axis(Axis::Attribute, nd).take(LIMIT).collect(), h(t.kids[n].iter().copied().filter(|k| t.kind[*k] == 'A').collect())));
        checks.push(("axis self", xot.axis(Axis::Self_, nd).take(LIMIT).collect(), h(vec![n])));
        // traverse: Start / End edges of the subtree in document order; reverse_traverse the mirror image
        fn edges(t: &T, n: usize, all: bool, out: &mut Vec<(bool, usize)>) { out.push((true, n)); for k in if all { t.kids[n].clone() } else { t.nk(n) } { edges(t, k, all, out); } out.push((false, n)); }
        let show = |v: Vec<NodeEdge>| -> Vec<(bool, i64)> { v.into_iter().map(|e| match e { NodeEdge::Start(x) => (true, t.h.iter().position(|y| *y == x).map(|i| i as i64).unwrap_or(-1)), NodeEdge::End(x) => (false, t.h.iter().position(|y| *y == x).map(|i| i as i64).unwrap_or(-1)) }).collect() };
        for (label, got, all, rev) in [("traverse", xot.traverse(nd).take(LIMIT).collect::<Vec<_>>(), false, false), ("all_traverse", xot.all_traverse(nd).take(LIMIT).collect(), true, false),
                                       ("reverse_traverse", xot.reverse_traverse(nd).take(LIMIT).collect(), false, true), ("reverse_all_traverse", xot.reverse_all_traverse(nd).take(LIMIT).collect(), true, true)] {
            let mut want = vec![]; edges(&t, n, all, &mut want);
            if !t.normal(n) && !all { want = vec![]; }
            let mut want: Vec<(bool, i64)> = want.into_iter().map(|(s, i)| (s, i as i64)).collect();
            if rev { want.reverse(); }
            let got = show(got);
            if got.len() >= LIMIT { return Some(format!("{} node {}: {} does not terminate", spec, n, label)); }
            if got != want { return Some(format!("{} node {}: {} gives {:?}, the structure gives {:?}", spec, n, label, got, want)); }
        }
        {   // reverse_preorder: the node, then every ordinary node before it in document order, back to the root
            let ord = t.order(n, false);
            let want: Vec<usize> = match ord.iter().position(|x| *x == n) { Some(i) => ord[..=i].iter().rev().copied().collect(),
                None => { let e = t.parent[n].unwrap(); let i = ord.iter().position(|x| *x == e).unwrap(); ord[..=i].iter().rev().copied().collect() } };
            let got: Vec<Node> = xot.reverse_preorder(nd).take(LIMIT).collect();
            // for an attribute / namespace node: what precedes it are its element and everything before that
            checks.push(("reverse_preorder", got, h(want)));
        }
        {   // all_reverse_preorder: the node, then every node (namespace and attribute nodes included) before it, back to the root
            let ord = t.order(n, true);
            if let Some(i) = ord.iter().position(|x| *x == n) {
                let want: Vec<usize> = ord[..=i].iter().rev().copied().collect();
                let got: Vec<Node> = xot.all_reverse_preorder(nd).take(LIMIT).collect();
                checks.push(("all_reverse_preorder", got, h(want)));
            }
        }
        if let Some(p) = t.parent[n] { let want = t.nk(p).iter().position(|x| *x == n); if xot.child_index(t.h[p], nd) != want { return Some(format!("{} node {}: child_index {:?}, expected {:?}", spec, n, xot.child_index(t.h[p], nd), want)); } }
        for (label, got, want) in checks {
            if got.len() >= LIMIT { return Some(format!("{} node {}: {} does not terminate", spec, n, label)); }
            if got != want { return Some(format!("{} node {}: {} gives {}, the structure gives {}", spec, n, label, name(&got), name(&want))); }
        }
        // partition of the ordinary nodes of the tree
        let mut parts: Vec<Node> = xot.axis(Axis::Ancestor, nd).chain(xot.axis(Axis::Descendant, nd)).chain(xot.preceding(nd)).chain(xot.following(nd)).take(LIMIT).collect();
        if t.normal(n) { parts.push(nd); }
        let idx = |x: &Node| t.h.iter().position(|y| y == x).map(|i| i as i64).unwrap_or(-1);
        let mut parts: Vec<i64> = parts.iter().map(idx).collect();
        let mut all: Vec<i64> = t.order(n, false).into_iter().map(|i| i as i64).collect();
        let l = parts.len(); parts.sort(); parts.dedup(); all.sort();
        if parts.len() != l || parts != all { return Some(format!("{} node {}: ancestors, descendants, preceding, following and self do not partition the ordinary nodes of the tree", spec, n)); }
        None
    }

    pub fn inputs() -> Vec<String> {
        let mut v = Vec::new();
        for (i, s) in specs().iter().enumerate() { let mut xot = Xot::new(); let n = build(s, &mut xot).map(|t| t.kind.len()).unwrap_or(0); for k in 0..n { v.push(format!("{} {}", i, k)); } }
        v
    }
}

// (C19) HTML5 serialisation of small trees: no panic, doctype, element rules, escaping
#[allow(dead_code)]
mod htmltree {
    use xot::Xot;
    /// input: "<root kind>|<child kinds>|<indent>": kinds: p P b(r) B(R) j (bR: HTML names are ASCII case-insensitive) i(mg) s(cript) r (sCript) S(TYLE) x(unknown) m(athml) v(svg) f(oreign)
    /// t (text with < and &) c(omment) q (PI) Q (PI with '>'); root kind may also be D (document with the children directly),
    /// T (a detached text node), F (fragment: children directly under a document node)
    pub fn inputs(large: bool) -> Vec<String> {
        let kids = ['p', 'P', 'b', 'B', 'j', 'i', 's', 'S', 'x', 'm', 'v', 'f', 't', 'u', 'c', 'q', 'Q'];
        let mut seqs: Vec<String> = vec![String::new()];
        let mut frontier = seqs.clone();
        for _ in 0..(if large { 3 } else { 2 }) { let mut next = Vec::new(); for s in &frontier { for k in kids { next.push(format!("{}{}", s, k)); } } seqs.extend(next.iter().cloned()); frontier = next; }
        let mut v = Vec::new();
        for r in ['p', 'P', 's', 'r', 'x', 'm', 'v', 'f', 'D', 'F'] { for s in &seqs { for ind in ["0", "1"] { v.push(format!("{}|{}|{}", r, s, ind)); } } }
        v.push("T||0".into()); v.push("T||1".into());
        // nested documents (parsed): void elements that carry declarations of their own inside HTML, SVG and MathML
        for k in 0..nested_docs().len() { for ind in ["0", "1"] { v.push(format!("N|{}|{}", k, ind)); } }
        v
    }
    const SVG: &str = "http://www.w3.org/2000/svg";
    const MML: &str = "http://www.w3.org/1998/Math/MathML";
    fn nested_docs() -> Vec<String> {
        // HTML elements are in no namespace here (the XHTML namespace is the subject of a known finding)
        let mut v = Vec::new();
        for void in ["img", "br", "hr", "input"] {
            v.push(format!("<html><body><s:svg xmlns:s=\"{s}\"><s:foreignObject><{v} xmlns:x=\"urn:x\" x:a=\"1\"/></s:foreignObject><s:circle/></s:svg><p>after</p></body></html>", s = SVG, v = void));
            v.push(format!("<svg xmlns=\"{s}\"><foreignObject><{v} xmlns=\"\"/></foreignObject><circle/></svg>", s = SVG, v = void));
            v.push(format!("<p><{v} xmlns:x=\"urn:x\" x:a=\"1\"/><span><{v}/></span><b>t</b></p>", v = void));
            v.push(format!("<div><m:math xmlns:m=\"{m}\"><m:mi>x</m:mi><{v} xmlns:y=\"urn:y\" y:b=\"2\"/><m:mo>+</m:mo></m:math><{v}/><p/></div>", m = MML, v = void));
            v.push(format!("<f:frob xmlns:f=\"urn:f\"><{v} xmlns:g=\"urn:g\" g:c=\"3\"/><f:x g:a=\"1\" xmlns:g=\"urn:g\"/></f:frob>", v = void));
        }
        v
    }
    /// start and end tags of the output must nest, void elements have no end tag
    fn check_nesting(out: &str) -> Option<String> {
        const VOIDS: [&str; 14] = ["area", "base", "br", "col", "embed", "hr", "img", "input", "link", "meta", "param", "source", "track", "wbr"];
        let mut stack: Vec<String> = Vec::new();
        let b = out.as_bytes();
        let mut i = 0;
        while i < b.len() {
            if b[i] == b'<' && i + 1 < b.len() && (b[i + 1].is_ascii_alphabetic() || b[i + 1] == b'/') {
                let end_tag = b[i + 1] == b'/';
                let start = if end_tag { i + 2 } else { i + 1 };
                let mut j = start;
                while j < b.len() && !(b[j] == b'>' || b[j] == b' ' || b[j] == b'/' || b[j] == b'\n') { j += 1; }
                let name = out[start..j].to_string();
                // skip to the end of the tag (attribute values are quoted with ")
                let mut q = false; let mut k = j;
                while k < b.len() && (q || b[k] != b'>') { if b[k] == b'"' { q = !q; } k += 1; }
                let self_closed = k > 0 && b[k - 1] == b'/';
                if end_tag { match stack.pop() { Some(t) if t == name => {} other => return Some(format!("end tag </{}> closes {:?}", name, other)) } }
                else if !self_closed && !VOIDS.contains(&name.to_ascii_lowercase().as_str()) { stack.push(name); }
                i = k;
            }
            i += 1;
        }
        if stack.is_empty() { None } else { Some(format!("unclosed elements {:?}", stack)) }
    }
    fn check_nested(k: usize, indent: bool) -> Option<String> {
        let doc = nested_docs().get(k)?.clone();
        let r = std::panic::catch_unwind(|| {
            let mut xot = Xot::new();
            let root = xot.parse(&doc).ok()?;
            let params = xot::output::html5::Parameters { indentation: if indent { Some(Default::default()) } else { None }, ..Default::default() };
            Some(xot.html5().serialize_string(params, root).map_err(|e| format!("{:?}", e)))
        });
        match r {
            Err(_) => Some(format!("HTML5 serialisation of {:?} panics", doc)),
            Ok(None) => None,
            Ok(Some(Err(e))) => Some(format!("HTML5 serialisation of the valid document {:?} fails: {}", doc, e)),
            Ok(Some(Ok(s))) => {
                if !s.starts_with("<!DOCTYPE html>") { return Some(format!("{:?}: output does not start with the HTML doctype: {:?}", doc, s)); }
                if let Some(why) = check_nesting(&s["<!DOCTYPE html>".len()..]) { return Some(format!("{:?}: tags of the HTML5 output {:?} do not nest: {}", doc, s, why)); }
                // a declaration is written where it was, never repeated on a following sibling that does not carry it
                for (name, uri) in [("circle", SVG), ("mo", MML)] { if s.contains(&format!("<{} xmlns=\"{}\"", name, uri)) { return Some(format!("{:?}: a redundant default declaration appears on <{}> in {:?}", doc, name, s)); } }
                None
            }
        }
    }
    const VOID: [&str; 2] = ["br", "img"];
    fn mk(xot: &mut Xot, k: char) -> Option<xot::Node> {
        let el = |xot: &mut Xot, local: &str, ns: &str| { let n = xot.add_namespace(ns); let nm = xot.add_name_ns(local, n); xot.new_element(nm) };
        Some(match k {
            'p' => el(xot, "p", ""), 'P' => el(xot, "P", ""), 'b' => el(xot, "br", ""), 'B' => el(xot, "BR", ""), 'i' => el(xot, "img", ""), 'j' => el(xot, "bR", ""), 'r' => el(xot, "sCript", ""),
            's' => el(xot, "script", ""), 'S' => el(xot, "STYLE", ""), 'x' => el(xot, "blink", ""),
            'm' => el(xot, "math", "http://www.w3.org/1998/Math/MathML"), 'v' => el(xot, "svg", "http://www.w3.org/2000/svg"),
            'f' => { let e = el(xot, "frob", "urn:foreign"); let p = xot.add_prefix("f"); let u = xot.add_namespace("urn:foreign"); xot.namespaces_mut(e).insert(p, u); e }
            't' => xot.new_text("a<b&c"), 'u' => xot.new_text("x<y"), 'c' => xot.new_comment("k"),
            'q' => { let t = xot.add_name("pi"); xot.new_processing_instruction(t, Some("d")) }
            'Q' => { let t = xot.add_name("pi"); xot.new_processing_instruction(t, Some("a>b")) }
            _ => return None })
    }
    pub fn check(input: &str) -> Option<String> {
        let f: Vec<&str> = input.split('|').collect();
        if f.len() != 3 { return None; }
        if f[0] == "N" { return check_nested(f[1].parse().ok()?, f[2] == "1"); }
        let r = std::panic::catch_unwind(|| {
            let mut xot = Xot::new();
            xot.set_text_consolidation(false);
            let rk = f[0].chars().next()?;
            let root = match rk { 'D' | 'F' => xot.new_document(), 'T' => xot.new_text("a<b&c"), k => mk(&mut xot, k)? };
            let mut has_bad_pi = false;
            let mut text_parents: Vec<char> = Vec::new();
            let mut lt_parents: Vec<char> = Vec::new();
            for k in f[1].chars() {
                let n = mk(&mut xot, k)?;
                if xot.append(root, n).is_err() { return None; }
                if k == 'Q' { has_bad_pi = true; }
                if k == 't' { text_parents.push(rk); }
                if k == 'u' { lt_parents.push(rk); }
            }
            let params = xot::output::html5::Parameters { indentation: if f[2] == "1" { Some(Default::default()) } else { None }, ..Default::default() };
            let out = xot.html5().serialize_string(params, root);
            Some((out.map_err(|e| format!("{:?}", e)), has_bad_pi, text_parents, lt_parents, rk))
        });
        let (out, has_bad_pi, text_parents, lt_parents, rk) = match r { Err(_) => return Some(format!("HTML5 serialisation of {} panics", input)), Ok(None) => return None, Ok(Some(x)) => x };
        let s = match out { Err(e) => { return if has_bad_pi { None } else { Some(format!("{}: refused although nothing forbids it: {}", input, e)) } } Ok(s) => s };
        if has_bad_pi { return Some(format!("{}: a processing instruction containing '>' was emitted: {:?}", input, s)); }
        if !s.starts_with("<!DOCTYPE html>") { return Some(format!("{}: output does not start with the HTML doctype: {:?}", input, s)); }
        let low = s.to_ascii_lowercase();
        for v in VOID { if low.contains(&format!("</{}>", v)) || low.contains(&format!("<{}/>", v)) || low.contains(&format!("<{} />", v)) { return Some(format!("{}: void element {} written with an end tag or self-closed: {:?}", input, v, s)); } }
        for e in ["p", "script", "style", "blink"] { if low.contains(&format!("<{}/>", e)) || low.contains(&format!("<{} />", e)) { return Some(format!("{}: HTML element {} self-closed: {:?}", input, e, s)); }
            if low.matches(&format!("<{}>", e)).count() + low.matches(&format!("<{} ", e)).count() != low.matches(&format!("</{}>", e)).count() { return Some(format!("{}: HTML element {} without explicit end tag: {:?}", input, e, s)); } }
        if low.contains("<math") && !low.contains("<math xmlns=\"http://www.w3.org/1998/math/mathml\"") { return Some(format!("{}: MathML element not written unprefixed under a default declaration: {:?}", input, s)); }
        if low.contains("<svg") && !low.contains("<svg xmlns=\"http://www.w3.org/2000/svg\"") { return Some(format!("{}: SVG element not written unprefixed under a default declaration: {:?}", input, s)); }
        if low.contains(":math") || low.contains(":svg") { return Some(format!("{}: MathML / SVG element written with a prefix: {:?}", input, s)); }
        // '<' and '&' from text raw only inside script / style
        let raw_expected = text_parents.iter().filter(|p| **p == 's' || **p == 'r').count();
        if s.matches("a<b&c").count() != raw_expected { return Some(format!("{}: raw '<' / '&' from text {} time(s), expected {} (script / style only): {:?}", input, s.matches("a<b&c").count(), raw_expected, s)); }
        let raw_lt = lt_parents.iter().filter(|p| **p == 's' || **p == 'r').count();
        if s.matches("x<y").count() != raw_lt { return Some(format!("{}: raw '<' from text {} time(s), expected {} (script / style only): {:?}", input, s.matches("x<y").count(), raw_lt, s)); }
        let _ = rk;
        None
    }
}

// (C09 known finding) the qualified name reported for an element in no namespace below a default namespace declaration
#[allow(dead_code)]
fn c09_qname_default_ns() -> Option<String> {
    let mut xot = Xot::new();
    let root = xot.parse("<a xmlns=\"u\"/>").ok()?;
    let a = xot.document_element(root).ok()?;
    let b = xot.add_name("b");
    let el = xot.new_element(b);
    xot.append(a, el).ok()?;
    match xot.full_name(el, b) {
        Ok(q) if !q.contains(':') => Some(format!("full_name of the no-namespace element b below xmlns=\"u\" is {:?}; an element name without prefix resolves to the default namespace u there", q)),
        _ => None,
    }
}

// (C10) create_missing_prefixes repairs a tree whose names lost their declarations, however often it is repeated
// (C10) one expanded name {urn:A}k used twice: as a child of m, where m declares urn:A (as prefix p or as the default
// namespace), and a second time - as an element outside that scope (eo) or inside it (ei), as an attribute outside
// (ao: on a no-namespace element under r), on the first k itself (ai) or on a sibling of k inside the scope (an) -
// met by a document-order walk before or after the first use; then create_missing_prefixes (twice)
// (C09) names of attribute nodes that are not (or no longer) attached: the xml prefix is bound everywhere and a name in no
// namespace needs no prefix, so the qualified name of such a node is always known
#[allow(dead_code)]
fn c09_detached_names(input: &str) -> Option<String> {
    let (k, how) = input.split_once('|')?;
    let mut xot = Xot::new();
    let (name, want) = match k {
        "space" => (xot.xml_space_name(), "xml:space"),
        "id" => (xot.xml_id_name(), "xml:id"),
        "lang" => { let ns = xot.xml_namespace(); (xot.add_name_ns("lang", ns), "xml:lang") }
        _ => (xot.add_name("plain"), "plain"),
    };
    let node = match how {
        "fresh" => xot.new_attribute_node(name, "v".to_string()),
        _ => {
            let root = xot.parse("<doc xmlns:p=\"urn:p\"><e/></doc>").ok()?;
            let e = xot.first_child(xot.document_element(root).ok()?)?;
            xot.attributes_mut(e).insert(name, "v".to_string());
            let n = xot.attributes(e).get_node(name)?;
            xot.detach(n).ok()?;
            if how == "removed_parent" { xot.remove(e).ok()?; }
            n
        }
    };
    use xot::xmlname::NameStrInfo;
    let r = std::panic::catch_unwind(std::panic::AssertUnwindSafe(|| (xot.full_name(node, name), xot.node_name_ref(node).map(|o| o.map(|r| r.full_name().to_string())))));
    match r {
        Err(_) => Some(format!("the name of a parentless attribute node ({}, {}) panics", want, how)),
        Ok((full, by_ref)) => {
            if full.as_deref().ok() != Some(want) { return Some(format!("full_name of a parentless attribute node {} ({}) is {:?}", want, how, full)); }
            match by_ref { Ok(Some(s)) if s == want => None, other => Some(format!("node_name_ref of a parentless attribute node {} ({}) is {:?}", want, how, other)) }
        }
    }
}

// (C06) refused calls: every manipulation entry point called with a node that cannot be a parent / reference (a text, comment
// or PI node with long content in one- to four-byte characters, an attribute or namespace node, the document node): the call
// may refuse, but must not panic, and a refusal leaves the document as it was
#[allow(dead_code)]
fn c06_err_paths(input: &str) -> Option<String> {
    let f: Vec<&str> = input.split('|').collect();
    if f.len() != 4 { return None; }
    let (op, kind) = (f[0], f[1]);
    let ch = f[2].chars().next()?;
    let n: usize = f[3].parse().ok()?;
    let content: String = std::iter::repeat(ch).take(n).collect();
    let mut xot = Xot::new();
    let root = xot.parse("<doc xmlns:p=\"urn:p\" a=\"1\"><e>t</e><f/></doc>").ok()?;
    let doc_el = xot.document_element(root).ok()?;
    let e = xot.first_child(doc_el)?;
    let odd = match kind {
        "text" => { let t = xot.new_text(&content); xot.append(doc_el, t).ok()?; t }
        "comment" => { let c = xot.new_comment(&content); xot.append(doc_el, c).ok()?; c }
        "pi" => { let t = xot.add_name("pi"); let p = xot.new_processing_instruction(t, Some(&content)); xot.append(doc_el, p).ok()?; p }
        "attr" => { let nm = xot.add_name("long"); xot.attributes_mut(doc_el).insert(nm, content.clone()); xot.attributes(doc_el).get_node(nm)? }
        "ns" => { let pre = xot.add_prefix("q"); let ns = xot.add_namespace(&format!("urn:{}", content)); xot.namespaces_mut(doc_el).insert(pre, ns); xot.namespaces(doc_el).get_node(pre)? }
        "doc" => root,
        _ => return None,
    };
    let before = xot.to_string(root).ok()?;
    let name = xot.add_name("w");
    let fresh = xot.new_element(name);
    let r = std::panic::catch_unwind(std::panic::AssertUnwindSafe(|| -> Result<(), xot::Error> {
        match op {
            "append" => xot.append(odd, fresh),
            "prepend" => xot.prepend(odd, fresh),
            "insert_after" => xot.insert_after(odd, fresh),
            "insert_before" => xot.insert_before(odd, fresh),
            "replace" => xot.replace(odd, e),
            "wrap" => xot.element_wrap(odd, name).map(|_| ()),
            "unwrap" => xot.element_unwrap(odd),
            "any_append" => xot.any_append(odd, fresh).map(|_| ()),
            "append_text" => xot.append_text(odd, "z"),
            "append_element" => xot.append_element(odd, name),
            "append_comment" => xot.append_comment(odd, "z"),
            "append_pi" => xot.append_processing_instruction(odd, name, None),
            "attr_node" => { let an = xot.new_attribute_node(name, "v".to_string()); xot.append_attribute_node(odd, an).map(|_| ()) }
            "ns_node" => { let pre = xot.add_prefix("zz"); let ns = xot.add_namespace("urn:zz"); let nn = xot.new_namespace_node(pre, ns); xot.append_namespace_node(odd, nn).map(|_| ()) }
            _ => Ok(()),
        }
    }));
    match r {
        Err(_) => Some(format!("{} with a {} node of {} x {:?} as parent / reference panics", op, kind, n, ch)),
        Ok(Err(_)) => { let after = xot.to_string(root).ok()?; if after != before { Some(format!("{} with a {} node as parent / reference fails but changes the document: {:?} became {:?}", op, kind, before, after)) } else { None } }
        Ok(Ok(())) => None,
    }
}

// (C02) "supplied as bytes in a declared encoding": the same document as text and as bytes in UTF-8 / UTF-16 (either byte
// order, with and without byte-order mark) / ISO-8859-1 / windows-1252 must parse to deep-equal trees
#[allow(dead_code)]
fn c02_bytes_enc(input: &str) -> Option<String> {
    let f: Vec<&str> = input.split('|').collect();
    if f.len() != 3 { return None; }
    let bodies = ["<a/>", "<a x=\"1\">text</a>", "<a>caf\u{e9} \u{fc}ber</a>", "<a><b>1</b>\n<c y=\"\u{e0}\"/></a>", "<a>plain ascii only, some of it long enough to matter</a>", "<a>&#233;&amp;</a>"];
    let body = bodies.get(f[1].parse::<usize>().ok()?)?;
    let label = match f[0] { "utf8" | "utf8bom" => "UTF-8", "utf16le" | "utf16lebom" => "UTF-16LE", "utf16be" | "utf16bebom" => "UTF-16BE", "latin1" => "ISO-8859-1", "cp1252" => "windows-1252", _ => return None };
    // UTF-16 with a byte-order mark is labelled UTF-16 when it carries a declaration
    let label = if f[0].ends_with("bom") && f[0].starts_with("utf16") { "UTF-16" } else { label };
    let with_decl = f[2] == "1";
    // without a declaration only the self-describing encodings apply
    if !with_decl && (f[0] == "latin1" || f[0] == "cp1252" || f[0] == "utf16le" || f[0] == "utf16be") { return None; }
    let text = if with_decl { format!("<?xml version=\"1.0\" encoding=\"{}\"?>{}", label, body) } else { body.to_string() };
    let mut bytes: Vec<u8> = Vec::new();
    match f[0] {
        "utf8" => bytes.extend(text.as_bytes()),
        "utf8bom" => { bytes.extend([0xEF, 0xBB, 0xBF]); bytes.extend(text.as_bytes()); }
        "utf16le" | "utf16lebom" => { if f[0].ends_with("bom") { bytes.extend([0xFF, 0xFE]); } for u in text.encode_utf16() { bytes.extend(u.to_le_bytes()); } }
        "utf16be" | "utf16bebom" => { if f[0].ends_with("bom") { bytes.extend([0xFE, 0xFF]); } for u in text.encode_utf16() { bytes.extend(u.to_be_bytes()); } }
        _ => { for c in text.chars() { if (c as u32) < 256 { bytes.push(c as u32 as u8); } else { return None; } } }
    }
    let mut xot = Xot::new();
    let want = xot.parse(body).ok()?;
    let got = match std::panic::catch_unwind(std::panic::AssertUnwindSafe(|| xot.parse_bytes(&bytes))) {
        Err(_) => return Some(format!("parse_bytes panics on {:?} as {}", text, f[0])),
        Ok(Err(e)) => return Some(format!("{:?} supplied as {} bytes is rejected: {:?}", text, f[0], e)),
        Ok(Ok(n)) => n };
    if !xot.deep_equal(want, got) { return Some(format!("{:?} supplied as {} bytes parses to {:?}", text, f[0], xot.to_string(got))); }
    None
}

// (C10) the xml prefix and the XML namespace: documents that use xml:lang / xml:space without any declaration stay as they
// are under create_missing_prefixes; another prefix bound to the XML namespace keeps its declaration; the prefix xml bound
// to another namespace keeps its declaration; each serialises, reparses deep-equal and keeps every expanded name
#[allow(dead_code)]
fn c10_xml_layouts(k: &str) -> Option<String> {
    const XMLNS: &str = "http://www.w3.org/XML/1998/namespace";
    let k: usize = k.parse().ok()?;
    let docs = [
        "<doc xml:lang=\"en\"/>".to_string(),
        "<doc xml:lang=\"en\"><e xml:space=\"preserve\"> </e></doc>".to_string(),
        "<doc><e xml:id=\"i\"><f xml:lang=\"de\"/></e></doc>".to_string(),
        format!("<doc xmlns:foo=\"{}\" foo:lang=\"en\"><foo:e/></doc>", XMLNS),
        format!("<doc><e xmlns:foo=\"{}\" foo:lang=\"en\" xml:space=\"default\"/></doc>", XMLNS),
        "<doc xmlns:xml=\"http://example.com/a\"><xml:p xml:q=\"Q\"><xml:r/></xml:p></doc>".to_string(),
        "<doc><e xmlns:xml=\"http://example.com/a\" xml:q=\"Q\"/></doc>".to_string(),
    ];
    let doc = docs.get(k % docs.len())?;
    let repair = k >= docs.len() || k % 2 == 0;
    let mut xot = Xot::new();
    let root = match xot.parse(doc) { Ok(r) => r, Err(_) => return None };   // a parser that refuses the layout decides nothing here
    let names = |xot: &Xot, root: xot::Node| -> Vec<String> { xot.descendants(root).filter(|n| xot.is_element(*n)).map(|n| { let (l, u) = xot.name_ns_str(xot.element(n).unwrap().name());
        let mut at: Vec<String> = xot.attributes(n).iter().map(|(k, v)| { let (l, u) = xot.name_ns_str(k); format!("{{{}}}{}={}", u, l, v) }).collect(); at.sort();
        format!("{{{}}}{}[{}]", u, l, at.join(",")) }).collect() };
    let before = names(&xot, root);
    if repair {
        for round in 0..2 {
            match std::panic::catch_unwind(std::panic::AssertUnwindSafe(|| xot.create_missing_prefixes(root))) {
                Err(_) => return Some(format!("{}: create_missing_prefixes panics", doc)), Ok(Err(e)) => return Some(format!("{}: create_missing_prefixes fails: {:?}", doc, e)), Ok(Ok(())) => {} }
            if names(&xot, root) != before { return Some(format!("{}: an expanded name or attribute changed (call {})", doc, round + 1)); }
        }
    }
    let s = match xot.to_string(root) { Ok(s) => s, Err(e) => return Some(format!("{}{}: does not serialise: {:?}", doc, if repair { " after create_missing_prefixes" } else { "" }, e)) };
    let back = match xot.parse(&s) { Ok(b) => b, Err(e) => return Some(format!("{}{}: serialises as {:?}, which does not reparse: {:?}", doc, if repair { " after create_missing_prefixes" } else { "" }, s, e)) };
    if !xot.deep_equal(root, back) || names(&xot, back) != before { return Some(format!("{}{}: serialises as {:?}, which reparses to a different tree", doc, if repair { " after create_missing_prefixes" } else { "" }, s)); }
    // the HTML5 serializer writes the same declarations (it must not drop one either)
    if let Ok(h) = xot.html5().to_string(root) {
        for (pre, uri) in [("foo", XMLNS), ("xml", "http://example.com/a")] {
            if doc.contains(&format!("xmlns:{}=\"{}\"", pre, uri)) && (h.contains(&format!("<{}:", pre)) || h.contains(&format!(" {}:", pre))) && !h.contains(&format!("xmlns:{}=\"{}\"", pre, uri)) {
                return Some(format!("{}: the HTML5 serialisation {:?} uses the prefix {} without its declaration", doc, h, pre));
            }
        }
    }
    None
}

#[allow(dead_code)]
fn c10_same_name_twice(d: &str, second: &str, order: &str, target: &str) -> Option<String> {
    let mut xot = Xot::new();
    let ua = xot.add_namespace("urn:A");
    let doc = format!("<r><m{}/></r>", if d == "p" { " xmlns:p=\"urn:A\"" } else { " xmlns=\"urn:A\"" });
    let root = xot.parse(&doc).ok()?;
    let r = xot.document_element(root).ok()?;
    let m = xot.first_child(r)?;
    let k = xot.add_name_ns("k", ua);
    let first = xot.new_element(k);
    xot.append(m, first).ok()?;
    let plain = xot.add_name("plain");
    let place = |xot: &mut Xot, parent: xot::Node, n: xot::Node| -> Option<()> { if order == "before" { xot.prepend(parent, n).ok() } else { xot.append(parent, n).ok() } };
    match second {
        "eo" => { let e = xot.new_element(k); place(&mut xot, r, e)?; }
        "ei" => { let e = xot.new_element(k); place(&mut xot, m, e)?; }
        "ao" => { let e = xot.new_element(plain); xot.attributes_mut(e).insert(k, "v".to_string()); place(&mut xot, r, e)?; }
        "ai" => { xot.attributes_mut(first).insert(k, "v".to_string()); }
        "an" => { let ka = xot.add_name_ns("sib", ua); let e = xot.new_element(ka); xot.attributes_mut(e).insert(k, "v".to_string()); place(&mut xot, m, e)?; }
        _ => return None,
    }
    let what = format!("{} with {{urn:A}}k used a second time ({}, {} the first use)", doc, second, order);
    let names = |xot: &Xot| -> Vec<String> { xot.descendants(root).filter(|n| xot.is_element(*n)).map(|n| { let (l, u) = xot.name_ns_str(xot.element(n).unwrap().name());
        let mut at: Vec<String> = xot.attributes(n).iter().map(|(k, v)| { let (l, u) = xot.name_ns_str(k); format!("{{{}}}{}={}", u, l, v) }).collect(); at.sort();
        format!("{{{}}}{}[{}]", u, l, at.join(",")) }).collect() };
    let before = names(&xot);
    let tnode = if target == "root" { root } else { r };
    for round in 0..2 {
        let res = std::panic::catch_unwind(std::panic::AssertUnwindSafe(|| xot.create_missing_prefixes(tnode)));
        match res { Err(_) => return Some(format!("{}: create_missing_prefixes panics", what)), Ok(Err(e)) => return Some(format!("{}: create_missing_prefixes fails: {:?}", what, e)), Ok(Ok(())) => {} }
        if names(&xot) != before { return Some(format!("{}: an expanded name or attribute changed (call {})", what, round + 1)); }
        let s = match xot.to_string(root) { Ok(s) => s, Err(e) => return Some(format!("{}: serialisation still fails after the repair (call {}): {:?}", what, round + 1, e)) };
        let back = match xot.parse(&s) { Ok(b) => b, Err(e) => return Some(format!("{}: {:?} does not reparse: {:?}", what, s, e)) };
        if !xot.deep_equal(root, back) { return Some(format!("{}: {:?} reparses to a different tree", what, s)); }
    }
    None
}

#[allow(dead_code)]
fn c10_missing_prefixes(input: &str) -> Option<String> {
    // input: "<decl on a>|<decl on m>|<steps>": decl letters: 0 = xmlns:n0="urn:A", 1 = xmlns:n1="urn:A", p = xmlns:p="urn:A", d = xmlns="urn:A";
    // steps: x / y / z = append a new element in urn:X / urn:Y / urn:Z under m; a = attribute in urn:W on m; c = create_missing_prefixes(root);
    // e = create_missing_prefixes(m); v = move the first child of m (an element in urn:A using the declarations above) under a fresh element
    let f: Vec<&str> = input.split('|').collect();
    if f.len() == 5 && f[0] == "N" { return c10_same_name_twice(f[1], f[2], f[3], f[4]); }
    if f.len() == 2 && f[0] == "X" { return c10_xml_layouts(f[1]); }
    if f.len() != 3 { return None; }
    let decl = |d: &str| -> String { d.chars().map(|c| match c { '0' => " xmlns:n0=\"urn:A\"", '1' => " xmlns:n1=\"urn:A\"", 'p' => " xmlns:p=\"urn:A\"", 'd' => " xmlns=\"urn:A\"", _ => "" }).collect() };
    let has_a = f[0].chars().chain(f[1].chars()).any(|c| "01pd".contains(c));
    let mut xot = Xot::new();
    let ua = xot.add_namespace("urn:A");
    let doc = format!("<r{}><m{}/></r>", decl(f[0]), decl(f[1]));
    // r and m are in no namespace unless the default namespace is declared: keep them in no namespace by construction
    if f[0].contains('d') || f[1].contains('d') { return None; }
    let root = xot.parse(&doc).ok()?;
    let r = xot.document_element(root).ok()?;
    let m = xot.first_child(r)?;
    if has_a { let n = xot.add_name_ns("k", ua); let e = xot.new_element(n); xot.append(m, e).ok()?; }
    let mut counter = 0;
    let mut done = String::new();
    for st in f[2].chars() {
        counter += 1;
        done.push(st);
        match st {
            'x' | 'y' | 'z' => { let u = xot.add_namespace(&format!("urn:{}", st.to_ascii_uppercase())); let n = xot.add_name_ns(&format!("e{}", counter), u); let e = xot.new_element(n); xot.append(m, e).ok()?; }
            'a' => { let u = xot.add_namespace("urn:W"); let n = xot.add_name_ns(&format!("at{}", counter), u); xot.attributes_mut(m).insert(n, "v".to_string()); }
            'v' => { if let Some(k) = xot.first_child(m) { let n = xot.add_name("fresh"); let e = xot.new_element(n); xot.append(r, e).ok()?; xot.append(e, k).ok()?; } }
            'c' | 'e' => {
                let target = if st == 'c' { root } else { m };
                let names = |xot: &Xot| -> Vec<String> { xot.descendants(root).filter(|n| xot.is_element(*n)).map(|n| { let (l, u) = xot.name_ns_str(xot.element(n).unwrap().name());
                    let mut at: Vec<String> = xot.attributes(n).iter().map(|(k, v)| { let (l, u) = xot.name_ns_str(k); format!("{{{}}}{}={}", u, l, v) }).collect(); at.sort();
                    format!("{{{}}}{}[{}]", u, l, at.join(",")) }).collect() };
                let before = names(&xot);
                let bindings_before: Vec<Vec<(String, String)>> = xot.descendants(root).filter(|n| xot.is_element(*n)).map(|n| xot.namespaces(n).iter().map(|(p, u)| (xot.prefix_str(p).to_string(), xot.namespace_str(*u).to_string())).collect()).collect();
                let res = std::panic::catch_unwind(std::panic::AssertUnwindSafe(|| xot.create_missing_prefixes(target)));
                match res { Err(_) => return Some(format!("{} after {:?}: create_missing_prefixes panics", doc, done)), Ok(Err(e)) => return Some(format!("{} after {:?}: create_missing_prefixes fails: {:?}", doc, done, e)), Ok(Ok(())) => {} }
                if names(&xot) != before { return Some(format!("{} after {:?}: an expanded name or attribute changed", doc, done)); }
                // no binding that was there has been overridden
                let bindings_after: Vec<Vec<(String, String)>> = xot.descendants(root).filter(|n| xot.is_element(*n)).map(|n| xot.namespaces(n).iter().map(|(p, u)| (xot.prefix_str(p).to_string(), xot.namespace_str(*u).to_string())).collect()).collect();
                for (b, a) in bindings_before.iter().zip(bindings_after.iter()) { for (p, u) in b { if !a.contains(&(p.clone(), u.clone())) { return Some(format!("{} after {:?}: the binding {}={} has been overridden or removed", doc, done, p, u)); } } }
                // the repaired (sub)tree serialises and reparses deep-equal
                let s = match xot.to_string(target) { Ok(s) => s, Err(e) => return Some(format!("{} after {:?}: serialisation still fails after the repair: {:?}", doc, done, e)) };
                let back = match xot.parse(&s) { Ok(b) => b, Err(e) => return Some(format!("{} after {:?}: {:?} does not reparse: {:?}", doc, done, s, e)) };
                let cmp = if st == 'c' { root } else { m };
                let back = if st == 'c' { back } else { xot.document_element(back).ok()? };
                if !xot.deep_equal(cmp, back) { return Some(format!("{} after {:?}: {:?} reparses to a different tree", doc, done, s)); }
            }
            _ => return None,
        }
    }
    None
}

// (trusted base) the contracts that contracts/arena.vi and arena_mut.vi ASSUME about indextree, checked against the real
// indextree on small forests: result, refusal condition, resulting forest, handles of removed nodes for ever removed
#[allow(dead_code)]
mod arenaconf {
    use indextree::{Arena, NodeId};

    #[derive(Clone, Debug, PartialEq)]
    pub struct F { pub parent: Vec<Option<usize>>, pub kids: Vec<Vec<usize>>, pub removed: Vec<bool> }
    impl F {
        fn anc_or_self(&self, a: usize, mut n: usize) -> bool { loop { if n == a { return true; } match self.parent[n] { Some(p) => n = p, None => return false } } }
        fn detach(&mut self, c: usize) { if let Some(p) = self.parent[c] { let i = self.kids[p].iter().position(|x| *x == c).unwrap(); self.kids[p].remove(i); self.parent[c] = None; } }
        fn subtree(&self, n: usize, out: &mut Vec<usize>) { out.push(n); for k in &self.kids[n] { self.subtree(*k, out); } }
    }
    pub fn shapes() -> Vec<Vec<Option<usize>>> {
        vec![vec![None, Some(0), Some(0), Some(1), Some(1), Some(2), None, Some(6)], vec![None, Some(0), Some(1), Some(2), Some(3)], vec![None, Some(0), Some(0), Some(0), Some(0), None, None], vec![None]]
    }
    fn build(shape: &[Option<usize>]) -> (Arena<u32>, Vec<NodeId>, F) {
        let mut arena = Arena::new();
        let mut ids = Vec::new();
        let mut f = F { parent: vec![], kids: vec![], removed: vec![] };
        for (i, p) in shape.iter().enumerate() {
            let id = arena.new_node(i as u32);
            ids.push(id); f.parent.push(None); f.kids.push(vec![]); f.removed.push(false);
            if let Some(p) = p { ids[*p].append(id, &mut arena); f.parent[i] = Some(*p); f.kids[*p].push(i); }
        }
        (arena, ids, f)
    }
    fn observe(arena: &Arena<u32>, ids: &[NodeId]) -> F {
        let idx = |n: NodeId| ids.iter().position(|x| *x == n).unwrap();
        let mut f = F { parent: vec![], kids: vec![], removed: vec![] };
        for id in ids {
            let rem = id.is_removed(arena);
            f.removed.push(rem);
            if rem { f.parent.push(None); f.kids.push(vec![]); continue; }
            let node = &arena[*id];
            f.parent.push(node.parent().map(idx));
            // children through first_child / next_sibling, cross-checked with last_child / previous_sibling
            let mut ks = vec![]; let mut c = node.first_child(); while let Some(k) = c { ks.push(idx(k)); c = arena[k].next_sibling(); }
            let mut rs = vec![]; let mut c = node.last_child(); while let Some(k) = c { rs.push(idx(k)); c = arena[k].previous_sibling(); }
            rs.reverse();
            if ks != rs { f.kids.push(vec![usize::MAX]); } else { f.kids.push(ks); }
        }
        f
    }
    pub fn inputs() -> Vec<String> {
        let mut v = Vec::new();
        for (si, sh) in shapes().iter().enumerate() { for op in ["append", "prepend", "insert_after", "insert_before", "detach", "remove", "remove_subtree", "reuse"] {
            for x in 0..sh.len() { for y in 0..sh.len() { if ["detach", "remove", "remove_subtree", "reuse"].contains(&op) && y != 0 { continue; } v.push(format!("{} {} {} {}", si, op, x, y)); } } } }
        v
    }
    pub fn check(input: &str) -> Option<String> {
        let f: Vec<&str> = input.split(' ').collect();
        let shape = shapes().get(f[0].parse::<usize>().ok()?)?.clone();
        let (op, x, y): (&str, usize, usize) = (f[1], f[2].parse().ok()?, f[3].parse().ok()?);
        let (mut arena, mut ids, mut m) = build(&shape);
        let before = m.clone();
        // the assumed contract: precondition (None = outside the contract: nothing is claimed), refusal, effect on the model
        let expect_err: Option<bool> = match op {
            "append" => Some(y == x || m.anc_or_self(y, x)),
            "prepend" => if m.kids[x].first() == Some(&y) { None } else { Some(y == x || m.anc_or_self(y, x)) },
            "insert_after" | "insert_before" => if m.parent[x].is_none() || (y != x && m.anc_or_self(y, x)) { None } else { Some(y == x) },
            "remove" => if m.parent[x].is_none() && m.kids[x].len() > 1 { None } else { Some(false) },
            _ => Some(false),
        };
        let expect_err = expect_err?;
        if !expect_err { match op {
            "append" => { m.detach(y); m.kids[x].push(y); m.parent[y] = Some(x); }
            "prepend" => { m.detach(y); m.kids[x].insert(0, y); m.parent[y] = Some(x); }
            "insert_after" | "insert_before" => { m.detach(y); let p = m.parent[x].unwrap(); let i = m.kids[p].iter().position(|k| *k == x).unwrap() + if op == "insert_after" { 1 } else { 0 }; m.kids[p].insert(i, y); m.parent[y] = Some(p); }
            "detach" => m.detach(x),
            "remove" => { let p = m.parent[x]; let ks = m.kids[x].clone();
                if let Some(p) = p { let i = m.kids[p].iter().position(|k| *k == x).unwrap(); m.kids[p].remove(i); for (j, k) in ks.iter().enumerate() { m.kids[p].insert(i + j, *k); } }
                for k in &ks { m.parent[*k] = p; }
                m.parent[x] = None; m.kids[x].clear(); m.removed[x] = true; }
            "remove_subtree" | "reuse" => { let mut sub = vec![]; m.subtree(x, &mut sub); m.detach(x); for n in sub { m.parent[n] = None; m.kids[n].clear(); m.removed[n] = true; } }
            _ => return None } }
        let r = std::panic::catch_unwind(std::panic::AssertUnwindSafe(|| match op {
            "append" => ids[x].checked_append(ids[y], &mut arena).is_err(),
            "prepend" => ids[x].checked_prepend(ids[y], &mut arena).is_err(),
            "insert_after" => ids[x].checked_insert_after(ids[y], &mut arena).is_err(),
            "insert_before" => ids[x].checked_insert_before(ids[y], &mut arena).is_err(),
            "detach" => { ids[x].detach(&mut arena); false }
            "remove" => { ids[x].remove(&mut arena); false }
            _ => { ids[x].remove_subtree(&mut arena); false } }));
        let got_err = match r { Err(_) => return Some(format!("indextree {} ({}, {}) on shape {} panics inside the assumed contract's precondition", op, x, y, f[0])), Ok(e) => e };
        if got_err != expect_err { return Some(format!("indextree {}({}, {}) on shape {}: returned {}, the assumed contract says {}", op, x, y, f[0], if got_err { "Err" } else { "Ok" }, if expect_err { "Err" } else { "Ok" })); }
        if op == "reuse" {
            // new nodes after a removal may take over the slots; the old handles stay removed, the new handles are fresh
            let n0 = ids.len();
            for i in 0..n0 { let id = arena.new_node(100 + i as u32); if ids.contains(&id) { return Some(format!("new_node returned a handle equal to one issued before ({})", i)); } ids.push(id); m.parent.push(None); m.kids.push(vec![]); m.removed.push(false); }
        }
        let want = if expect_err { before } else { m };
        let got = observe(&arena, &ids);
        if got != want { return Some(format!("indextree {}({}, {}) on shape {}: forest {:?}, the assumed contract gives {:?}", op, x, y, f[0], got, want)); }
        // accessors the nav contracts assume: ancestors (node first), children, is_removed
        for (i, id) in ids.iter().enumerate() {
            if got.removed[i] { continue; }
            let an: Vec<usize> = id.ancestors(&arena).map(|n| ids.iter().position(|z| *z == n).unwrap()).collect();
            let mut want_an = vec![i]; let mut c = want.parent[i]; while let Some(p) = c { want_an.push(p); c = want.parent[p]; }
            if an != want_an { return Some(format!("indextree ancestors({}) = {:?}, expected {:?}", i, an, want_an)); }
            let ch: Vec<usize> = id.children(&arena).map(|n| ids.iter().position(|z| *z == n).unwrap()).collect();
            if ch != want.kids[i] { return Some(format!("indextree children({}) = {:?}, expected {:?}", i, ch, want.kids[i])); }
        }
        None
    }
}

// (C09) scope queries against nearest-declaration-wins, computed independently from the declarations on the path
#[allow(dead_code)]
fn c09_scope(input: &str) -> Option<String> {
    // input: three declaration sets "da|db|dc" like ns_layout (d=default, p, q followed by 0/1/2)
    let f: Vec<&str> = input.split('|').collect();
    if f.len() != 3 { return None; }
    let mut xot = Xot::new();
    let uris = ["", "http://u1", "http://u2"];
    let ns_ids: Vec<_> = uris.iter().map(|u| xot.add_namespace(u)).collect();
    let empty = xot.empty_prefix();
    let p = xot.add_prefix("p");
    let q = xot.add_prefix("q");
    let mut els = Vec::new();
    for (i, local) in ["a", "b", "c"].iter().enumerate() {
        let name = xot.add_name(local);
        let el = xot.new_element(name);
        let chars: Vec<char> = f[i].chars().collect();
        let mut k = 0;
        while k + 1 < chars.len() {
            let pre = match chars[k] { 'd' => empty, 'p' => p, 'q' => q, _ => return None };
            let n = ns_ids[chars[k + 1].to_digit(10)? as usize];
            if pre != empty && chars[k + 1] == '0' { return None; }
            xot.namespaces_mut(el).insert(pre, n);
            k += 2;
        }
        if let Some(parent) = els.last() { xot.append(*parent, el).ok()?; }
        els.push(el);
    }
    let xmlp = xot.xml_prefix();
    let xmlns = xot.xml_namespace();
    for (depth, node) in els.iter().enumerate() {
        // reference: walk from the node outwards, first declaration of each prefix wins
        let mut scope: Vec<(xot::PrefixId, xot::NamespaceId)> = Vec::new();
        for anc in els[..=depth].iter().rev() {
            for (pre, ns) in xot.namespaces(*anc).iter() {
                if !scope.iter().any(|(p2, _)| *p2 == pre) { scope.push((pre, *ns)); }
            }
        }
        if !scope.iter().any(|(p2, _)| *p2 == xmlp) { scope.push((xmlp, xmlns)); }
        for pre in [empty, p, q, xmlp] {
            let want = scope.iter().find(|(p2, _)| *p2 == pre).map(|(_, n)| *n).filter(|n| *n != ns_ids[0]);
            let got = xot.namespace_for_prefix(*node, pre);
            if got != want { return Some(format!("layout {} node {}: namespace_for_prefix({:?}) = {:?}, nearest-declaration-wins gives {:?}", input, depth, xot.prefix_str(pre), got.map(|n| xot.namespace_str(n).to_string()), want.map(|n| xot.namespace_str(n).to_string()))); }
            let defined = scope.iter().any(|(p2, _)| *p2 == pre);
            if xot.is_prefix_defined(*node, pre) != defined { return Some(format!("layout {} node {}: is_prefix_defined({:?}) = {}, expected {}", input, depth, xot.prefix_str(pre), !defined, defined)); }
        }
        for ns in [ns_ids[1], ns_ids[2], xmlns] {
            let got = xot.prefix_for_namespace(*node, ns);
            let exists = scope.iter().any(|(_, n)| *n == ns);
            match got {
                Some(pre) => { if !scope.iter().any(|(p2, n)| *p2 == pre && *n == ns) { return Some(format!("layout {} node {}: prefix_for_namespace({:?}) = {:?}, which is not bound to it in scope", input, depth, xot.namespace_str(ns), xot.prefix_str(pre))); } }
                None => { if exists { return Some(format!("layout {} node {}: prefix_for_namespace({:?}) = None although a prefix is bound to it in scope", input, depth, xot.namespace_str(ns))); } }
            }
        }
        // qualified names: the reported name, resolved in the node's scope by the rules for its kind, gives back the
        // expanded name (an element name without prefix takes the default binding, an attribute name without prefix is
        // in no namespace); MissingPrefix only when no usable prefix is in scope
        let default_bound = scope.iter().find(|(p2, _)| *p2 == empty).map(|(_, n)| *n).filter(|n| *n != ns_ids[0]);
        for nsi in 0..3 {
            let usable_el = nsi == 0 && default_bound.is_none() || nsi != 0 && scope.iter().any(|(_, n)| *n == ns_ids[nsi]);
            let usable_at = nsi == 0 || scope.iter().any(|(p2, n)| *n == ns_ids[nsi] && *p2 != empty);
            // an element in no namespace below a default namespace declaration cannot be named: the qualified-name
            // functions answer with the bare local name (known finding, mirror image of the C10 finding)
            if nsi == 0 && default_bound.is_some() { continue; }
            let el_name = xot.add_name_ns("probe", ns_ids[nsi]);
            let probe = xot.new_element(el_name);
            xot.append(*node, probe).ok()?;
            let at_name = xot.add_name_ns("at", ns_ids[nsi]);
            let at_node = xot.new_attribute_node(at_name, "v".to_string());
            xot.any_append(probe, at_node).ok()?;
            let resolve = |q: &str, element: bool| -> (String, xot::NamespaceId) {
                match q.split_once(':') {
                    Some((pre, local)) => { let pid = xot.prefix(pre); (local.to_string(), scope.iter().find(|(p2, _)| Some(*p2) == pid).map(|(_, n)| *n).unwrap_or(ns_ids[0])) }
                    None => (q.to_string(), if element { default_bound.unwrap_or(ns_ids[0]) } else { ns_ids[0] }),
                }
            };
            use xot::xmlname::NameStrInfo;
            let el_q = [xot.full_name(probe, el_name).ok(), xot.node_name_ref(probe).ok().flatten().map(|r| r.full_name().to_string())];
            let at_q = [xot.full_name(at_node, at_name).ok(), xot.node_name_ref(at_node).ok().flatten().map(|r| r.full_name().to_string())];
            for (kind, qs, element, usable, local) in [("element", el_q, true, usable_el, "probe"), ("attribute", at_q, false, usable_at, "at")] {
                for q in qs {
                    match q {
                        Some(q) => { let (l, n) = resolve(&q, element); if l != local || n != ns_ids[nsi] { return Some(format!("layout {} node {}: the {} {{{}}}{} is reported as {:?}, which resolves to namespace {:?} in its scope", input, depth, kind, xot.namespace_str(ns_ids[nsi]), local, q, xot.namespace_str(n))); } }
                        None => { if usable { return Some(format!("layout {} node {}: no qualified name for the {} {{{}}}{} although a usable prefix is in scope", input, depth, kind, xot.namespace_str(ns_ids[nsi]), local)); } }
                    }
                }
            }
            xot.remove(probe).ok()?;
        }
    }
    None
}

// (C02, C03, C08) namespace scoping in the parser: small documents generated from a description (shape, per element: a
// declaration, a prefixed or unprefixed name, an optional prefixed attribute), so that the expanded name of every element
// and attribute - or the fact that a prefix is unbound where it is used - is known by construction
#[allow(dead_code)]
mod nsscope {
    use xot::Xot;

    // shapes: parent index of each element (element 0 is the root)
    const SHAPES: &[&[usize]] = &[&[0, 0, 0], &[0, 0, 1], &[0, 0, 1, 0], &[0, 0, 0, 2]];
    // per element: decl 0 none / 1 p=u / 2 p=v / 3 default=d ; name 0 unprefixed / 1 p: ; attr 0 none / 1 p:x
    pub fn inputs(large: bool) -> Vec<String> {
        let mut v = Vec::new();
        for (si, shape) in SHAPES.iter().enumerate() {
            let n = shape.len();
            if n == 4 && !large { 
                // the four-element shapes: declarations and names vary, attributes only on the last element
                let per = 8usize;
                for code in 0..per.pow(4) {
                    let mut c = code; let mut spec = String::new();
                    for k in 0..4 { let e = c % per; c /= per; spec.push_str(&format!("{}{}{}", e / 2, e % 2, if k == 3 { 1 } else { 0 })); }
                    v.push(format!("{}|{}", si, spec));
                }
                continue;
            }
            let per = 16usize;
            for code in 0..per.pow(n as u32) {
                let mut c = code; let mut spec = String::new();
                for _ in 0..n { let e = c % per; c /= per; spec.push_str(&format!("{}{}{}", e / 4, (e / 2) % 2, e % 2)); }
                v.push(format!("{}|{}", si, spec));
            }
        }
        v
    }

    pub fn check(input: &str) -> Option<String> {
        let (si, spec) = input.split_once('|')?;
        let shape = SHAPES.get(si.parse::<usize>().ok()?)?;
        let d: Vec<u32> = spec.chars().map(|c| c.to_digit(10).unwrap_or(0)).collect();
        let n = shape.len();
        if d.len() != 3 * n { return None; }
        // the text, and the expected expanded names by a reference scope walk
        let kids = |i: usize| -> Vec<usize> { (1..n).filter(|k| shape[*k] == i).collect() };
        fn emit(i: usize, d: &[u32], kids: &dyn Fn(usize) -> Vec<usize>, p: Option<&'static str>, dflt: &'static str, out: &mut String, want: &mut Vec<(String, String)>, ok: &mut bool) {
            let (decl, pref, attr) = (d[3 * i], d[3 * i + 1], d[3 * i + 2]);
            let (p, dflt) = match decl { 1 => (Some("u"), dflt), 2 => (Some("v"), dflt), 3 => (p, "d"), _ => (p, dflt) };
            // every element below the root has the same written local name: a cache keyed on the written name must not leak a scope
            let local = if i == 0 { "r".to_string() } else { "e".to_string() };
            let qname = if pref == 1 { format!("p:{}", local) } else { local.clone() };
            out.push('<'); out.push_str(&qname);
            match decl { 1 => out.push_str(" xmlns:p=\"u\""), 2 => out.push_str(" xmlns:p=\"v\""), 3 => out.push_str(" xmlns=\"d\""), _ => {} }
            if attr == 1 { out.push_str(" p:x=\"1\""); }
            out.push('>');
            if pref == 1 { match p { Some(u) => want.push((u.to_string(), local.clone())), None => *ok = false } } else { want.push((dflt.to_string(), local.clone())); }
            if attr == 1 { match p { Some(u) => want.push((u.to_string(), "x".to_string())), None => *ok = false } }
            for k in kids(i) { emit(k, d, kids, p, dflt, out, want, ok); }
            out.push_str("</"); out.push_str(&qname); out.push('>');
        }
        let mut text = String::new(); let mut want = Vec::new(); let mut ok = true;
        emit(0, &d, &kids, None, "", &mut text, &mut want, &mut ok);
        let mut xot = Xot::new();
        let res = std::panic::catch_unwind(std::panic::AssertUnwindSafe(|| xot.parse(&text)));
        let root = match res { Err(_) => return Some(format!("parse panics on {:?}", text)), Ok(r) => r };
        match (ok, root) {
            (false, Ok(_)) => Some(format!("{:?} uses a prefix where it is not bound, but is accepted", text)),
            (false, Err(_)) => None,
            (true, Err(e)) => Some(format!("{:?} is namespace-well-formed but is rejected: {:?}", text, e)),
            (true, Ok(root)) => {
                let mut got: Vec<(String, String)> = Vec::new();
                let mut ids: Vec<xot::NameId> = Vec::new();
                for nd in xot.descendants(root) {
                    if let Some(e) = xot.element(nd) {
                        let (l, u) = xot.name_ns_str(e.name()); got.push((u.to_string(), l.to_string())); ids.push(e.name());
                        for (k, _) in xot.attributes(nd).iter() { let (l, u) = xot.name_ns_str(k); got.push((u.to_string(), l.to_string())); ids.push(k); }
                    }
                }
                if got != want { return Some(format!("{:?}: expanded names {:?}, XML Namespaces scoping gives {:?}", text, got, want)); }
                // ids: equal exactly when the expanded names are equal
                for a in 0..got.len() { for b in 0..got.len() { if (got[a] == got[b]) != (ids[a] == ids[b]) { return Some(format!("{:?}: name ids and expanded names disagree ({:?} / {:?})", text, got[a], got[b])); } } }
                // serialisation is accepted again and gives the same names
                let s = match xot.to_string(root) { Ok(s) => s, Err(e) => return Some(format!("{:?} is accepted but does not serialise: {:?}", text, e)) };
                let back = match xot.parse(&s) { Ok(b) => b, Err(e) => return Some(format!("{:?}: its serialisation {:?} is rejected: {:?}", text, s, e)) };
                if !xot.deep_equal(root, back) { return Some(format!("{:?}: its serialisation {:?} reparses to a different tree", text, s)); }
                None
            }
        }
    }
}

// (C13) shallow_equal_ignore_attributes against "attribute maps equal after removing the ignored names (as a set)"
#[allow(dead_code)]
fn c13_shallow(input: &str) -> Option<String> {
    // input: "A|B|I": attributes of a, of b as letters with values like x1y2, ignore list as letters (repeats allowed)
    let f: Vec<&str> = input.split('|').collect();
    if f.len() != 3 { return None; }
    let mut xot = Xot::new();
    let e = xot.add_name("e");
    let mk = |xot: &mut Xot, spec: &str| -> Option<xot::Node> {
        let el = xot.new_element(e);
        let cs: Vec<char> = spec.chars().collect();
        let mut k = 0;
        while k + 1 < cs.len() {
            let n = xot.add_name(&cs[k].to_string());
            xot.attributes_mut(el).insert(n, cs[k + 1].to_string());
            k += 2;
        }
        Some(el)
    };
    let a = mk(&mut xot, f[0])?;
    let b = mk(&mut xot, f[1])?;
    let ignore: Vec<xot::NameId> = f[2].chars().map(|c| xot.add_name(&c.to_string())).collect();
    let filt = |xot: &Xot, n: xot::Node| -> Vec<(xot::NameId, String)> {
        let mut v: Vec<(xot::NameId, String)> = xot.attributes(n).iter().filter(|(k, _)| !ignore.contains(k)).map(|(k, v)| (k, v.clone())).collect();
        v.sort();
        v
    };
    let want = filt(&xot, a) == filt(&xot, b);
    let got = std::panic::catch_unwind(std::panic::AssertUnwindSafe(|| xot.shallow_equal_ignore_attributes(a, b, &ignore)));
    match got {
        Err(_) => Some(format!("shallow_equal_ignore_attributes panics for a={:?} b={:?} ignore={:?}", f[0], f[1], f[2])),
        Ok(g) => if g != want { Some(format!("a={:?} b={:?} ignore={:?}: returned {}, attribute maps minus the ignored set are {}", f[0], f[1], f[2], g, if want { "equal" } else { "different" })) } else { None },
    }
}

// (C18) remove_insignificant_whitespace called on every subtree of small documents with xml:space attributes, against
// the property's definition evaluated independently on the tree before the call
#[allow(dead_code)]
fn c18_strip_scope(input: &str) -> Option<String> {
    let f: Vec<&str> = input.split('|').collect();
    if f.len() != 2 { return None; }
    let doc = f[0];
    let start: usize = f[1].parse().ok()?;
    let mut xot = Xot::new();
    // "F:" marks a fragment: its document node may have text children
    let root = if let Some(frag) = doc.strip_prefix("F:") { xot.parse_fragment(frag).ok()? } else { xot.parse(doc).ok()? };
    // every ordinary node of the tree is tried as the start node: the document node, elements, text nodes, comments
    let all: Vec<_> = xot.descendants(root).collect();
    let start_node = *all.get(start)?;
    let space = xot.xml_space_name();
    let is_ws = |t: &str| t.chars().all(|c| c == ' ' || c == '\t' || c == '\r' || c == '\n');
    // expected removals among the text nodes below (or at) start_node
    let texts: Vec<_> = xot.descendants(start_node).filter(|n| xot.is_text(*n)).collect();
    let mut expect_removed = Vec::new();
    for t in &texts {
        let txt = xot.text_str(*t).unwrap();
        let mut preserve = false;
        for anc in xot.ancestors(*t) {
            if xot.is_element(anc) {
                if let Some(v) = xot.attributes(anc).get(space) { preserve = v == "preserve"; break; }
            }
        }
        let sibling_content = match xot.parent(*t) {
            Some(parent) => xot.children(parent).any(|c| c != *t && xot.text_str(c).map(|s| !is_ws(s)).unwrap_or(false)),
            None => false,
        };
        expect_removed.push(is_ws(txt) && !preserve && !sibling_content);
    }
    let describe = |xot: &Xot, n: xot::Node| -> String {
        if let Some(t) = xot.text_str(n) { return format!("T{:?}", t); }
        if let Some(c) = xot.comment_str(n) { return format!("C{:?}", c); }
        if let Some(e) = xot.element(n) {
            let mut at: Vec<String> = xot.attributes(n).iter().map(|(k, v)| format!("{}={:?}", xot.local_name_str(k), v)).collect();
            at.sort();
            return format!("E{}[{}]^{:?}", xot.local_name_str(e.name()), at.join(","), xot.parent(n));
        }
        format!("{:?}", xot.value_type(n))
    };
    let before: Vec<(xot::Node, String, Option<xot::Node>)> = all.iter().map(|n| (*n, describe(&xot, *n), xot.parent(*n))).collect();
    xot.remove_insignificant_whitespace(start_node);
    let what = if doc.starts_with("F:") { "fragment" } else { "document" };
    for (t, exp) in texts.iter().zip(expect_removed.iter()) {
        if xot.is_removed(*t) != *exp {
            return Some(format!("{} {:?}, called on node #{} ({:?}): a text node is {} but the definition says {}", what, doc, start, xot.value_type(start_node), if xot.is_removed(*t) { "removed" } else { "kept" }, if *exp { "remove" } else { "keep" }));
        }
    }
    for n in &all { if !texts.contains(n) && xot.is_removed(*n) { return Some(format!("{} {:?}, called on node #{}: a node that is not a text node below the start node was removed", what, doc, start)); } }
    // every other node, value and order is untouched
    let gone: Vec<xot::Node> = texts.iter().zip(expect_removed.iter()).filter(|(_, e)| **e).map(|(t, _)| *t).collect();
    let kept: Vec<&(xot::Node, String, Option<xot::Node>)> = before.iter().filter(|(n, _, _)| !gone.contains(n)).collect();
    if !xot.is_removed(root) {
        let after: Vec<_> = xot.descendants(root).collect();
        if after.len() != kept.len() || after.iter().zip(kept.iter()).any(|(a, k)| *a != k.0) {
            return Some(format!("{} {:?}, called on node #{}: the remaining nodes are not the old ones in the old order", what, doc, start));
        }
        for (n, d, p) in kept.iter().map(|k| (k.0, &k.1, k.2)) {
            if &describe(&xot, n) != d || xot.parent(n) != p { return Some(format!("{} {:?}, called on node #{}: a remaining node changed ({} -> {})", what, doc, start, d, describe(&xot, n))); }
        }
        // a second call changes nothing
        if !xot.is_removed(start_node) {
            xot.remove_insignificant_whitespace(start_node);
            let again: Vec<_> = xot.descendants(root).collect();
            if again != after || after.iter().any(|n| xot.is_removed(*n)) {
                return Some(format!("{} {:?}, called on node #{}: a second call changed the tree", what, doc, start));
            }
        }
    }
    None
}
