//! Witness search and replay against the real xot crate (path dependency on /repo).
//!
//! `replay search <target> <small|large>` enumerates small inputs for the contract family `target`,
//! runs the real code, and evaluates an executable mirror of the postcondition.  The first violating
//! input is printed as `WITNESS <json>`.  `replay replay '<json>'` re-executes one witness and exits 1
//! if it still violates.  The enumerators never decide a property; they only attach a concrete input to
//! an obligation the verifier has already failed.
use std::panic;
use xot::output::xml::Parameters;
use xot::output::Indentation;
use xot::Xot;

fn strings(alphabet: &[char], max_len: usize) -> Vec<String> {
    let mut out = vec![String::new()];
    let mut frontier = vec![String::new()];
    for _ in 0..max_len {
        let mut next = Vec::new();
        for s in &frontier {
            for c in alphabet {
                let mut t = s.clone();
                t.push(*c);
                next.push(t);
            }
        }
        out.extend(next.iter().cloned());
        frontier = next;
    }
    out
}

const CRIT: &[char] = &['\t', '\n', '\r', ' ', '&', '<', '>', '\'', '"', ']', ';', '#', 'x', 'a', '\u{10000}'];

fn json_str(s: &str) -> String {
    let mut o = String::from("\"");
    for c in s.chars() {
        match c {
            '"' => o.push_str("\\\""),
            '\\' => o.push_str("\\\\"),
            '\n' => o.push_str("\\n"),
            '\r' => o.push_str("\\r"),
            '\t' => o.push_str("\\t"),
            c if (c as u32) < 0x20 => o.push_str(&format!("\\u{:04x}", c as u32)),
            c => o.push(c),
        }
    }
    o.push('"');
    o
}

fn witness(target: &str, input: &str, detail: &str) -> String {
    format!("{{\"target\":{},\"input\":{},\"detail\":{}}}", json_str(target), json_str(input), json_str(detail))
}

/// Some(detail) if the input violates the mirrored postcondition
fn eval(target: &str, input: &str) -> Option<String> {
    let r = panic::catch_unwind(|| eval_inner(target, input));
    match r {
        Ok(v) => v,
        Err(_) => Some("panic".to_string()),
    }
}

fn eval_inner(target: &str, input: &str) -> Option<String> {
    match target {
        // text node content survives to_string -> parse
        "text_roundtrip" | "text_roundtrip_gt" => {
            if input.is_empty() {
                return None;
            }
            let mut xot = Xot::new();
            let a = xot.add_name("a");
            let el = xot.new_element(a);
            let t = xot.new_text(input);
            xot.append(el, t).unwrap();
            let params = Parameters { unescaped_gt: target == "text_roundtrip_gt", ..Default::default() };
            let s = xot.serialize_xml_string(params, el).unwrap();
            let mut xot2 = Xot::new();
            match xot2.parse(&s) {
                Err(e) => Some(format!("serialised as {:?}, reparse failed: {:?}", s, e)),
                Ok(root) => {
                    let de = xot2.document_element(root).unwrap();
                    let got = xot2.string_value(de);
                    if got != input { Some(format!("serialised as {:?}, read back as {:?}", s, got)) } else { None }
                }
            }
        }
        "attr_roundtrip" => {
            let mut xot = Xot::new();
            let a = xot.add_name("a");
            let b = xot.add_name("b");
            let el = xot.new_element(a);
            xot.attributes_mut(el).insert(b, input.to_string());
            let s = xot.to_string(el).unwrap();
            let mut xot2 = Xot::new();
            match xot2.parse(&s) {
                Err(e) => Some(format!("serialised as {:?}, reparse failed: {:?}", s, e)),
                Ok(root) => {
                    let de = xot2.document_element(root).unwrap();
                    let b2 = xot2.add_name("b");
                    let got = xot2.attributes(de).get(b2).cloned();
                    if got.as_deref() != Some(input) { Some(format!("serialised as {:?}, read back as {:?}", s, got)) } else { None }
                }
            }
        }
        "cdata_roundtrip" => {
            if input.is_empty() {
                return None;
            }
            let mut xot = Xot::new();
            let a = xot.add_name("a");
            let el = xot.new_element(a);
            let t = xot.new_text(input);
            xot.append(el, t).unwrap();
            let params = Parameters { cdata_section_elements: vec![a], ..Default::default() };
            let s = xot.serialize_xml_string(params, el).unwrap();
            let mut xot2 = Xot::new();
            match xot2.parse(&s) {
                Err(e) => Some(format!("serialised as {:?}, reparse failed: {:?}", s, e)),
                Ok(root) => {
                    let de = xot2.document_element(root).unwrap();
                    let got = xot2.string_value(de);
                    // the parser is expected to normalise line ends inside CDATA; compare with the line-end-free reading
                    if got != input { Some(format!("serialised as {:?}, read back as {:?}", s, got)) } else { None }
                }
            }
        }
        // input: an XML document; indentation must not add whitespace inside mixed content / preserve scope
        "pretty_scope" => {
            let mut xot = Xot::new();
            let root = xot.parse(input).ok()?;
            let params = Parameters { indentation: Some(Indentation::default()), ..Default::default() };
            let s = xot.serialize_xml_string(params, root).unwrap();
            let mut xot2 = Xot::new();
            let root2 = match xot2.parse(&s) {
                Ok(r) => r,
                Err(e) => return Some(format!("pretty output {:?} does not reparse: {:?}", s, e)),
            };
            // every whitespace-only text node of the reparse that has no counterpart in the source
            let space = xot2.xml_space_name();
            let nodes: Vec<_> = xot2.descendants(root2).collect();
            for n in nodes {
                if let Some(t) = xot2.text_str(n) {
                    if t.chars().all(|c| c == ' ' || c == '\n') && !input.contains(&format!(">{}<", t)) {
                        // added by pretty printing: where is it?
                        let parent = xot2.parent(n).unwrap();
                        let mut preserve = false;
                        for anc in xot2.ancestors(parent) {
                            if xot2.is_element(anc) {
                                if let Some(v) = xot2.attributes(anc).get(space) {
                                    preserve = v == "preserve";
                                    break;
                                }
                            }
                        }
                        let mixed = xot2.children(parent).any(|c| xot2.text_str(c).map(|t| !t.trim().is_empty()).unwrap_or(false));
                        if preserve || mixed {
                            return Some(format!("pretty output {:?} adds whitespace inside {} content", s, if preserve { "xml:space=preserve" } else { "mixed" }));
                        }
                    }
                }
            }
            None
        }
        "html_text" => {
            if input.is_empty() {
                return None;
            }
            let mut xot = Xot::new();
            let p = xot.add_name("p");
            let el = xot.new_element(p);
            let t = xot.new_text(input);
            xot.append(el, t).unwrap();
            let s = xot.html5().to_string(el).unwrap();
            let body = s.strip_prefix("<!DOCTYPE html><p>")?.strip_suffix("</p>")?;
            if body.contains('<') { return Some(format!("raw '<' from text in {:?}", s)); }
            let mut rest = body;
            while let Some(i) = rest.find('&') {
                let tail = &rest[i..];
                if !(tail.starts_with("&amp;") || tail.starts_with("&lt;") || tail.starts_with("&gt;") || tail.starts_with("&nbsp;")) {
                    return Some(format!("raw '&' from text in {:?}", s));
                }
                rest = &rest[i + 1..];
            }
            None
        }
        "html_attr" => {
            let mut xot = Xot::new();
            let p = xot.add_name("p");
            let title = xot.add_name("title");
            let el = xot.new_element(p);
            xot.attributes_mut(el).insert(title, input.to_string());
            let s = xot.html5().to_string(el).unwrap();
            let body = s.strip_prefix("<!DOCTYPE html><p title=\"")?.strip_suffix("\"></p>")?;
            if body.contains('"') { return Some(format!("raw '\"' in attribute value in {:?}", s)); }
            let mut rest = body;
            while let Some(i) = rest.find('&') {
                let tail = &rest[i..];
                if !(tail.starts_with("&amp;") || tail.starts_with("&lt;") || tail.starts_with("&gt;") || tail.starts_with("&nbsp;") || tail.starts_with("&quot;") || tail.starts_with("&apos;")) {
                    return Some(format!("raw '&' in attribute value in {:?}", s));
                }
                rest = &rest[i + 1..];
            }
            None
        }
        // XHTML namespace must be the W3C one: an element in it is written unprefixed
        "xhtml_ns" => {
            let mut xot = Xot::new();
            let root = xot.parse(input).ok()?;
            let s = xot.html5().to_string(root).unwrap();
            if s.contains("<h:") { Some(format!("element in the XHTML namespace written prefixed: {:?}", s)) } else { None }
        }
        // whitespace stripping: a text node of non-XML whitespace must survive
        "strip_ws" => {
            if input.is_empty() {
                return None;
            }
            let mut xot = Xot::new();
            let a = xot.add_name("a");
            let b = xot.add_name("b");
            let el = xot.new_element(a);
            let c1 = xot.new_element(b);
            let t = xot.new_text(input);
            let c2 = xot.new_element(b);
            xot.append(el, c1).unwrap();
            xot.append(el, t).unwrap();
            xot.append(el, c2).unwrap();
            xot.remove_insignificant_whitespace(el);
            let removed = xot.is_removed(t);
            let xml_ws = input.chars().all(|c| c == ' ' || c == '\t' || c == '\r' || c == '\n');
            if removed != xml_ws { Some(format!("text {:?}: removed={} but xml-whitespace-only={}", input, removed, xml_ws)) } else { None }
        }
        // xml:id normalisation: value -> tokens joined by one space
        "xml_id" => {
            if input.contains(|c| c == '<' || c == '&' || c == '"') {
                return None;
            }
            // literal TAB is turned into a space by attribute-value normalisation before xml:id normalisation
            let norm = input.replace('\t', " ");
            let expected: Vec<&str> = norm.split(' ').filter(|t| !t.is_empty()).collect();
            let expected = expected.join(" ");
            if expected.is_empty() {
                return None;
            }
            let doc = format!("<a xml:id=\"{}\"/>", input);
            let mut xot = Xot::new();
            let root = xot.parse(&doc).ok()?;
            match xot.xml_id_node(root, &expected) {
                Some(_) => None,
                None => Some(format!("{:?}: xml_id_node(\"{}\") finds nothing", doc, expected)),
            }
        }
        _ => Some(format!("unknown target {}", target)),
    }
}

fn inputs(target: &str, large: bool) -> Vec<String> {
    match target {
        "pretty_scope" => {
            let mut v = Vec::new();
            let spaces = ["", " xml:space=\"preserve\"", " xml:space=\"default\""];
            for s1 in spaces {
                for s2 in spaces {
                    for s3 in spaces {
                        v.push(format!("<doc{}><a{}><b{}><c/></b></a></doc>", s1, s2, s3));
                        v.push(format!("<doc{}><a{}>text<b{}><c/></b></a></doc>", s1, s2, s3));
                        v.push(format!("<doc{}><a{}><b{}><c/><!--x--></b><d/></a></doc>", s1, s2, s3));
                    }
                }
            }
            v
        }
        "xhtml_ns" => vec!["<h:p xmlns:h=\"http://www.w3.org/1999/xhtml\"><h:br/></h:p>".to_string()],
        "strip_ws" => strings(&[' ', '\t', '\n', '\r', '\u{a0}', '\u{2003}', 'x'], if large { 4 } else { 3 }),
        "xml_id" => strings(&[' ', 'x', 'y', '\t'], if large { 7 } else { 5 }),
        _ => strings(CRIT, if large { 4 } else { 3 }),
    }
}

fn main() {
    panic::set_hook(Box::new(|_| {}));
    let args: Vec<String> = std::env::args().collect();
    if args.len() >= 4 && args[1] == "search" {
        let target = &args[2];
        let large = args[3] == "large";
        let ins = inputs(target, large);
        let mut n = 0usize;
        for i in &ins {
            n += 1;
            if let Some(d) = eval(target, i) {
                println!("SEARCHED {}", n);
                println!("WITNESS {}", witness(target, i, &d));
                return;
            }
        }
        println!("SEARCHED {}", n);
        println!("NONE");
    } else if args.len() >= 4 && args[1] == "eval" {
        // replay eval <target> <input>
        match eval(&args[2], &args[3]) {
            Some(d) => {
                println!("VIOLATES: {}", d);
                std::process::exit(1);
            }
            None => println!("holds"),
        }
    } else {
        eprintln!("usage: replay search <target> <small|large> | replay eval <target> <input>");
        std::process::exit(2);
    }
}
