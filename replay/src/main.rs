fn main() {
    let mut xot = xot::Xot::new();
    let src = std::env::args().nth(1).unwrap();
    let root = xot.parse(&src).unwrap();
    let s = xot.serialize_xml_string(xot::output::xml::Parameters { indentation: Some(Default::default()), ..Default::default() }, root).unwrap();
    println!("{}", s);
}
