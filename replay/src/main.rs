fn main() {
    let mut xot = xot::Xot::new();
    let src = std::env::args().nth(1).unwrap();
    let root = xot.parse(&src).unwrap();
    let s = xot.html5().to_string(root).unwrap();
    println!("{}", s);
}
