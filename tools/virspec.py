#!/usr/bin/env python3
"""Development helper: print requires/ensures of a library function from a Verus `--log vir` dump.
usage: virspec.py <crate.vir> <substring of function path>"""
import re
import sys


def parse(s):
    i = 0
    n = len(s)
    stack = [[]]
    while i < n:
        c = s[i]
        if c.isspace():
            i += 1
        elif c == '(':
            stack.append([])
            i += 1
        elif c == ')':
            x = stack.pop()
            stack[-1].append(x)
            i += 1
        elif c == '"':
            j = i + 1
            while s[j] != '"':
                if s[j] == '\\':
                    j += 1
                j += 1
            stack[-1].append(s[i:j + 1])
            i = j + 1
        else:
            j = i
            while j < n and not s[j].isspace() and s[j] not in '()':
                j += 1
            stack[-1].append(s[i:j])
            i = j
    return stack[0]


def short(p):
    return p.split('::')[-1] if isinstance(p, str) else str(p)


def fmt(e):
    if isinstance(e, str):
        return e
    if not e:
        return '()'
    h = e[0]
    if h in ('@@', '@'):
        return fmt(e[2])
    if h == '>':
        return fmt(e[1:]) if len(e) > 2 else fmt(e[1])
    if h == 'Const':
        return fmt(e[1][-1]) if isinstance(e[1], list) else str(e[1])
    if h == 'ReadPlace':
        return fmt(e[1])
    if h == 'Place':
        if e[1] == 'Local':
            return e[2][1].strip('"')
        if e[1] in ('DerefMut', 'Temporary'):
            return ('*' if e[1] == 'DerefMut' else '') + fmt(e[2])
        if e[1] == 'Field':
            return fmt(e[-1]) + '.' + str(e[2])
        return '<' + ' '.join(fmt(x) for x in e[1:]) + '>'
    if h == 'Var':
        return e[1][1].strip('"') if isinstance(e[1], list) else str(e[1])
    if h == 'VarIdent':
        return e[1].strip('"')
    if h == 'Call':
        # (Call :target (CallTarget Fun kind (Fun :path P) ...) :args (...))
        tgt = e[e.index(':target') + 1]
        name = '?'
        flat = str(tgt)
        m = re.search(r"':path', '([^']+)'", flat)
        if m:
            name = m.group(1)
        else:
            m = re.search(r"'BuiltinSpecFun', '(\w+)'", flat)
            if m:
                name = m.group(1)
        args = e[e.index(':args') + 1] if ':args' in e else []
        return '%s(%s)' % (name.replace('vstd::', '').replace('std_specs::', ''), ', '.join(fmt(a) for a in args))
    if h == 'Binary':
        op = e[1]
        ops = ' '.join(x for x in re.findall(r"\w+", str(op)) if x not in ('BinaryOp',))
        return '(%s %s %s)' % (fmt(e[2]), ops, fmt(e[3]))
    if h == 'Logical':
        return '(%s %s %s)' % (fmt(e[2]), e[1][1], fmt(e[3]))
    if h == 'Multi':
        return 'chain[%s](%s)' % (' '.join(re.findall(r'(Le|Lt|Ge|Gt)', str(e[1]))), ', '.join(fmt(a) for a in e[2]))
    if h == 'Unary':
        ops = ' '.join(re.findall(r"\w+", str(e[1])))
        if 'Trigger' in ops:
            return fmt(e[2])
        if 'MutRefFuture' in ops:
            return 'final(%s)' % fmt(e[2])
        return '%s(%s)' % (ops, fmt(e[2]))
    if h == 'UnaryOpr':
        return '%s(%s)' % (' '.join(x.strip('"') for x in re.findall(r'"?[\w%]+"?', str(e[1]))[:6]), fmt(e[2]))
    if h == 'Old':
        return 'old(%s)' % fmt(e[1])
    if h == 'Quant':
        vs = [b[1] for b in e[2]]
        return '%s|%s| %s' % (e[1][0], ', '.join(str(v) for v in vs), fmt(e[3]))
    if h == 'If':
        return 'if %s { %s } else { %s }' % (fmt(e[1]), fmt(e[2]), fmt(e[3]) if len(e) > 3 else '')
    if h == 'Ctor':
        fields = e[3] if len(e) > 3 else []
        return '%s{%s}' % (e[2].strip('"'), ', '.join('%s: %s' % (f[1], fmt(f[2])) for f in fields if isinstance(f, list) and len(f) > 2))
    if h == 'Match':
        return 'match %s {%s}' % (fmt(e[1]), ' | '.join(fmt(a) for a in e[2]))
    if h == 'Block':
        return '{ ' + '; '.join(fmt(x) for x in e[1:]) + ' }'
    if h in ('Typ',):
        return ''
    return '[' + ' '.join(fmt(x) for x in e if not (isinstance(x, list) and x and x[0] == 'Typ')) + ']'


def main():
    text = open(sys.argv[1]).read()
    pat = sys.argv[2]
    # split top-level forms cheaply: each function starts with `(@ "` at column 0
    forms = re.split(r'\n(?=\(@ ")', text)
    for f in forms:
        m = re.search(r':name \(Fun :path ([^\s)]+)\)', f)
        if not m or pat not in m.group(1):
            continue
        tree = parse(f)
        fn = tree[0][2]
        print('==', m.group(1))
        for key in (':params', ':require', ':ensure', ':returns', ':decrease'):
            if key in fn:
                v = fn[fn.index(key) + 1]
                if key == ':params':
                    print(' params:', ', '.join(re.findall(r'VarIdent", \'"(\w+)"', str(v)) or re.findall(r"'\"(\w+)\"'", str(v))[:8]))
                    continue
                items = v
                if key == ':ensure' and items and items[0] == 'tuple':
                    items = [x for sub in items[1:] for x in sub]
                for it in items:
                    if isinstance(it, list):
                        print(' %s %s' % (key[1:], fmt(it)))


if __name__ == '__main__':
    main()
