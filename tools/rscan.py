"""Minimal Rust token scanner + item locator used by extract / weave / erase.

The scanner knows strings, raw strings, byte strings, chars vs lifetimes, nested block
comments and line comments.  It never interprets the code; it only finds token boundaries
so that items can be brace-matched and token streams compared.
"""
import re
from dataclasses import dataclass


@dataclass
class Tok:
    kind: str   # ident | lifetime | char | str | num | punct
    text: str
    start: int
    end: int


class ScanError(Exception):
    pass


_ident_start = re.compile(r'[A-Za-z_\u0080-￿]')
_ident = re.compile(r'[A-Za-z_0-9\u0080-￿]*')
_num = re.compile(r'[0-9][0-9A-Za-z_]*(\.[0-9][0-9A-Za-z_]*)?')


def tokenize(src, keep_comments=False):
    """Return list of Tok; comments are dropped unless keep_comments (kind 'comment')."""
    toks = []
    i = 0
    n = len(src)
    while i < n:
        c = src[i]
        if c.isspace():
            i += 1
            continue
        if src.startswith('//', i):
            j = src.find('\n', i)
            if j < 0:
                j = n
            if keep_comments:
                toks.append(Tok('comment', src[i:j], i, j))
            i = j
            continue
        if src.startswith('/*', i):
            depth = 1
            j = i + 2
            while j < n and depth:
                if src.startswith('/*', j):
                    depth += 1
                    j += 2
                elif src.startswith('*/', j):
                    depth -= 1
                    j += 2
                else:
                    j += 1
            if depth:
                raise ScanError('unterminated block comment at %d' % i)
            if keep_comments:
                toks.append(Tok('comment', src[i:j], i, j))
            i = j
            continue
        # raw strings r"..", r#".."#, br".."
        m = re.match(r'(b?r)(#*)"', src[i:i + 40])
        if m:
            hashes = m.group(2)
            close = '"' + hashes
            j = src.find(close, i + len(m.group(0)))
            if j < 0:
                raise ScanError('unterminated raw string at %d' % i)
            j += len(close)
            toks.append(Tok('str', src[i:j], i, j))
            i = j
            continue
        if c == '"' or (c == 'b' and i + 1 < n and src[i + 1] == '"'):
            j = i + (2 if c == 'b' else 1)
            while j < n and src[j] != '"':
                if src[j] == '\\':
                    j += 2
                else:
                    j += 1
            if j >= n:
                raise ScanError('unterminated string at %d' % i)
            j += 1
            toks.append(Tok('str', src[i:j], i, j))
            i = j
            continue
        if c == "'" or (c == 'b' and i + 1 < n and src[i + 1] == "'"):
            k = i + (1 if c == 'b' else 0)
            # char literal or lifetime?
            if k + 1 < n and src[k + 1] == '\\':
                j = k + 2
                # escape: skip until closing quote
                if src[j] == 'u':
                    j = src.find('}', j) + 1
                elif src[j] == 'x':
                    j += 3
                else:
                    j += 1
                if src[j] != "'":
                    raise ScanError('bad char literal at %d' % i)
                j += 1
                toks.append(Tok('char', src[i:j], i, j))
                i = j
                continue
            if k + 2 < n and src[k + 2] == "'":
                j = k + 3
                toks.append(Tok('char', src[i:j], i, j))
                i = j
                continue
            # lifetime
            m = _ident.match(src, k + 1)
            j = m.end()
            toks.append(Tok('lifetime', src[i:j], i, j))
            i = j
            continue
        if _ident_start.match(c):
            m = _ident.match(src, i)
            j = m.end()
            toks.append(Tok('ident', src[i:j], i, j))
            i = j
            continue
        if c.isdigit():
            m = _num.match(src, i)
            j = m.end()
            # avoid swallowing `0..n` : _num needs digit after '.'; ok
            toks.append(Tok('num', src[i:j], i, j))
            i = j
            continue
        toks.append(Tok('punct', c, i, i + 1))
        i += 1
    return toks


OPEN = {'(': ')', '[': ']', '{': '}'}
CLOSE = {')', ']', '}'}


def match_close(toks, k):
    """toks[k] is an opening bracket; return index of its matching close."""
    stack = []
    for j in range(k, len(toks)):
        t = toks[j]
        if t.kind != 'punct':
            continue
        if t.text in OPEN:
            stack.append(OPEN[t.text])
        elif t.text in CLOSE:
            if not stack or stack[-1] != t.text:
                raise ScanError('bracket mismatch at offset %d' % t.start)
            stack.pop()
            if not stack:
                return j
    raise ScanError('unclosed bracket at offset %d' % toks[k].start)


def _attr_start(toks, k):
    """Walk back over outer attributes `#[...]` preceding token index k; return new start index."""
    while True:
        j = k - 1
        if j >= 0 and toks[j].kind == 'punct' and toks[j].text == ']':
            # find matching '['
            depth = 0
            m = j
            while m >= 0:
                if toks[m].kind == 'punct' and toks[m].text == ']':
                    depth += 1
                elif toks[m].kind == 'punct' and toks[m].text == '[':
                    depth -= 1
                    if depth == 0:
                        break
                m -= 1
            if m >= 1 and toks[m - 1].kind == 'punct' and toks[m - 1].text == '#':
                k = m - 1
                continue
        return k


ITEM_KW = {'fn', 'struct', 'enum', 'const', 'static', 'type', 'trait', 'impl', 'mod', 'use', 'union', 'macro_rules'}
QUALS = {'pub', 'crate', 'unsafe', 'async', 'extern', 'default', 'const', 'in', 'super', 'self'}


@dataclass
class Item:
    kind: str        # fn/struct/...
    name: str        # for impl: normalized header text
    tstart: int      # token index of first token (incl. attributes + visibility)
    tkw: int         # token index of the keyword
    tbody: int       # token index of '{' of body or -1
    tend: int        # token index of last token (closing '}' or ';')


def items_in(toks, lo, hi):
    """Enumerate items between token indexes [lo, hi) at nesting depth 0 relative to that range."""
    out = []
    k = lo
    while k < hi:
        t = toks[k]
        if t.kind == 'punct' and t.text in OPEN:
            k = match_close(toks, k) + 1
            continue
        if t.kind == 'ident' and t.text in ITEM_KW:
            kw = t.text
            # `const` may be a qualifier: `const fn`; `impl` inside types is not at item level
            if kw == 'const' and k + 1 < hi and toks[k + 1].kind == 'ident' and toks[k + 1].text in ('fn', 'unsafe'):
                k += 1
                continue
            # find start (visibility/qualifiers/attributes)
            s = k
            while s - 1 >= lo:
                p = toks[s - 1]
                if p.kind == 'ident' and p.text in QUALS:
                    s -= 1
                    continue
                if p.kind == 'str' and s - 2 >= lo and toks[s - 2].text == 'extern':
                    s -= 1
                    continue
                if p.kind == 'punct' and p.text == ')' and s - 2 >= lo:
                    # pub(crate) / pub(in path)
                    m = s - 1
                    depth = 0
                    while m >= lo:
                        if toks[m].text == ')':
                            depth += 1
                        elif toks[m].text == '(':
                            depth -= 1
                            if depth == 0:
                                break
                        m -= 1
                    if m - 1 >= lo and toks[m - 1].kind == 'ident' and toks[m - 1].text == 'pub':
                        s = m - 1
                        continue
                break
            s = _attr_start(toks, s)
            # find end: first '{' or ';' at bracket depth 0 (angle brackets ignored)
            j = k + 1
            body = -1
            end = -1
            if kw == 'macro_rules':
                j = k + 1
            while j < hi:
                u = toks[j]
                if u.kind == 'punct':
                    if u.text == '{':
                        body = j
                        end = match_close(toks, j)
                        break
                    if u.text in ('(', '['):
                        j = match_close(toks, j) + 1
                        continue
                    if u.text == ';':
                        end = j
                        break
                j += 1
            if end < 0:
                raise ScanError('item without end at offset %d' % t.start)
            if kw in ('struct',) and body >= 0:
                pass
            if kw == 'struct' and body < 0:
                pass
            if kw in ('const', 'static', 'type', 'use') and body >= 0:
                # e.g. const X: T = Foo { .. };  -> extend to ';'
                j = end + 1
                while j < hi and not (toks[j].kind == 'punct' and toks[j].text == ';'):
                    if toks[j].kind == 'punct' and toks[j].text in OPEN:
                        j = match_close(toks, j)
                    j += 1
                end = j
                body = -1
            if kw == 'impl' or kw == 'trait':
                hdr_end = body if body >= 0 else end
                name = ' '.join(x.text for x in toks[k:hdr_end])
            elif kw == 'use':
                name = ' '.join(x.text for x in toks[k + 1:end])
            else:
                name = toks[k + 1].text if k + 1 < hi else ''
            out.append(Item(kw, name, s, k, body, end))
            k = end + 1
            continue
        k += 1
    return out


def find_item(src, toks, path):
    """path: list of selectors, e.g. ['impl Xot', 'fn parent'] or ['fn serialize_text'].
    An impl selector is 'impl <regex over normalized header>' (header tokens joined by single spaces,
    must fullmatch).  Returns the Item.  Raises LookupError on 0 or >1 matches."""
    lo, hi = 0, len(toks)
    item = None
    for sel in path:
        sel = sel.strip()
        mkw = re.match(r'[a-z_]+', sel)
        kw = mkw.group(0) if mkw else ''
        rest = sel[len(kw):].strip()
        cands = []
        for it in items_in(toks, lo, hi):
            if it.kind != kw:
                continue
            if kw in ('impl', 'trait'):
                hdr = it.name
                if kw == 'trait':
                    ok = toks[it.tkw + 1].text == rest
                else:
                    ok = re.fullmatch(rest.replace(' ', ''), hdr[len('impl'):].replace(' ', '')) is not None
                if ok:
                    cands.append(it)
            elif it.name == rest:
                cands.append(it)
        if len(cands) != 1:
            raise LookupError('selector %r matched %d items' % (sel, len(cands)))
        item = cands[0]
        if item.tbody >= 0:
            lo, hi = item.tbody + 1, item.tend
    return item


def text_of(src, toks, a, b):
    """source text from token index a through b inclusive"""
    return src[toks[a].start:toks[b].end]


def strip_comments(src):
    """Return src with comments replaced by a single space (strings respected)."""
    toks = tokenize(src, keep_comments=True)
    out = []
    pos = 0
    for t in toks:
        if t.kind == 'comment':
            out.append(src[pos:t.start])
            out.append(' ' if not t.text.startswith('//') else '')
            pos = t.end
    out.append(src[pos:])
    return ''.join(out)
