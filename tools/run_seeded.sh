#!/bin/sh
# dev helper: apply each kept seeded change to /repo, run the check of the property it breaks, undo it, record the outcome
cd "$(dirname "$0")/.."
for d in ${SEEDS:-seeded/*/}; do
  id=$(basename "$d"); prop=${id%%-*}
  [ -f "$d/patch.diff" ] || continue
  git -C /repo apply "$(pwd)/$d/patch.diff" || { echo "$id: patch does not apply"; continue; }
  cp "evidence/$prop.json" "/tmp/.evidence_$prop.json" 2>/dev/null
  out=$(./check "$prop" 2>&1); rc=$?
  git -C /repo checkout -- .
  # the evidence file of a run on a seeded tree is not evidence about /repo: put the clean one back
  mv "/tmp/.evidence_$prop.json" "evidence/$prop.json" 2>/dev/null
  echo "$out" | grep -E "^VIOLATION|^OK property|^UNDECIDED" | head -3 > "$d/check_result.txt"
  echo "exit=$rc" >> "$d/check_result.txt"
  echo "$id: exit=$rc $(echo "$out" | grep -c '^VIOLATION') violation line(s)"
done
