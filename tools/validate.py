#!/usr/bin/env python3
"""dev helper: validate MANIFEST.json and every evidence/<id>.json against the given schemas, and check that each
committed evidence file is a clean record (proof level: obligations >= 1, discharged == obligations, no violations)"""
import json, os, sys
from jsonschema import Draft202012Validator as V
R = os.path.dirname(os.path.dirname(os.path.abspath(__file__)))
bad = 0
man = json.load(open(os.path.join(R, 'MANIFEST.json')))
for e in V(json.load(open('/root/.vp/MANIFEST.schema.json'))).iter_errors(man):
    print('MANIFEST:', e.message[:200]); bad += 1
es = json.load(open('/root/.vp/EVIDENCE.schema.json'))
for c in man.get('checks', []):
    pid = c['property_id'] if 'property_id' in c else c.get('id')
    p = os.path.join(R, 'evidence', '%s.json' % pid)
    if not os.path.exists(p):
        print(pid, 'no evidence file'); bad += 1; continue
    ev = json.load(open(p))
    for e in V(es).iter_errors(ev):
        print(pid, 'schema:', e.message[:200]); bad += 1
    cov = ev.get('coverage', {})
    if ev.get('level') == 'proof' and not (cov.get('obligations', 0) >= 1 and cov.get('discharged') == cov.get('obligations') and cov.get('checker_cmd')):
        print(pid, 'not a clean proof record: obligations=%s discharged=%s' % (cov.get('obligations'), cov.get('discharged'))); bad += 1
    if ev.get('violations'):
        print(pid, 'records violations:', ev.get('violations')); bad += 1
print('validate: %d problem(s)' % bad)
sys.exit(1 if bad else 0)
