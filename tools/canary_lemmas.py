import subprocess, sys, re, os, shutil
# usage: canary_lemmas.py [names..]   (env CANARY_FILE / CANARY_UNIT select another include file / unit)
p=os.environ.get('CANARY_FILE','/verif/contracts/valid.vi')
unit=os.environ.get('CANARY_UNIT','contracts/U9_manip.vc')
orig=open(p).read()
names=re.findall(r'^pub proof fn (\w+)', orig, re.M)
if len(sys.argv) > 1: names=[n for n in names if n in sys.argv[1:]]
bad=[]
try:
    for nm in names:
        a=orig.index('pub proof fn %s(' % nm)
        # end of function: first line that is exactly '}' after a
        m=re.search(r'^\}$', orig[a:], re.M)
        e=a+m.start()
        mod=orig[:e]+'    assert(false);\n'+orig[e:]
        open(p,'w').write(mod)
        env=dict(os.environ, VERUS_EXTRA='--verify-root --verify-function %s' % nm)
        out=subprocess.run(['python3','tools/unit.py',unit],capture_output=True,text=True,env=env,cwd='/verif').stdout
        failed='FAILED' in out or "'errors': 1" in out
        print(nm, 'ok (canary fails)' if failed else 'VACUOUS?!', flush=True)
        if not failed: bad.append(nm)
finally:
    open(p,'w').write(orig)
print('vacuous:', bad)
