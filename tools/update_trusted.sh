#!/bin/sh
# dev helper: refresh allow-list counts + expected obligation counts for every unit (review the diff before committing!)
cd "$(dirname "$0")/.."
for f in contracts/*.vc; do python3 tools/trustscan.py "$f" --update 2>&1 | grep -v conda; done
