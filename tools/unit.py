"""Run one unit: extract, weave, erasure check, Verus, obligation map.  Library + CLI (for development)."""
import json
import os
import re
import subprocess
import sys
import time

sys.path.insert(0, os.path.dirname(os.path.abspath(__file__)))
from rscan import tokenize, match_close, OPEN  # noqa: E402
import weave as W  # noqa: E402

VERIF = os.path.dirname(os.path.dirname(os.path.abspath(__file__)))
REPO = os.environ.get('XOT_REPO', '/repo')


# ---------------------------------------------------------------------------------------------
# obligation enumeration over the woven text

CLAUSE_KW = ('requires', 'ensures', 'invariant', 'invariant_except_break', 'decreases', 'recommends', 'returns')


def _split_clauses(seg_text, base_off):
    """seg_text: header ghost text. -> list of (kw, label, props, start_off, end_off)"""
    toks = tokenize(seg_text, keep_comments=True)
    out = []
    kw = None
    cur_start = None
    label = None
    props = None
    depth = 0
    pending = None

    def close(end):
        nonlocal cur_start, pending
        if kw and cur_start is not None and end > cur_start:
            out.append((kw, pending[0] if pending else None, pending[1] if pending else None,
                        base_off + cur_start, base_off + end))
        cur_start = None
        pending = None

    last_end = 0
    k = 0
    while k < len(toks):
        t = toks[k]
        if t.kind == 'comment':
            m = re.match(r'//#\s*(\S+)\s*(?:\[([^\]]*)\])?', t.text)
            if m and cur_start is None:
                pending = (m.group(1), m.group(2).replace(',', ' ').split() if m.group(2) else None)
            k += 1
            continue
        if depth == 0 and t.kind == 'ident' and t.text in CLAUSE_KW:
            close(last_end)
            kw = t.text
            k += 1
            continue
        if t.kind == 'punct' and t.text in OPEN:
            if cur_start is None:
                cur_start = t.start
            e = match_close(toks_nocomment(toks), index_nocomment(toks, k))
            # map back
            k = index_withcomment(toks, e)
            last_end = toks[k].end
            k += 1
            continue
        if depth == 0 and t.kind == 'punct' and t.text == ',':
            close(last_end)
            k += 1
            continue
        if cur_start is None:
            cur_start = t.start
        last_end = t.end
        k += 1
    close(last_end)
    return out


def toks_nocomment(toks):
    return [t for t in toks if t.kind != 'comment']


def index_nocomment(toks, k):
    return sum(1 for t in toks[:k] if t.kind != 'comment')


def index_withcomment(toks, e):
    c = -1
    for i, t in enumerate(toks):
        if t.kind != 'comment':
            c += 1
            if c == e:
                return i
    raise IndexError


def _split_stmts(seg_text, base_off):
    """statement ghost text -> asserts (incl. those nested in proof blocks): (label, props, start, end)"""
    toks = tokenize(seg_text, keep_comments=True)
    out = []
    pending = None
    for k, t in enumerate(toks):
        if t.kind == 'comment':
            m = re.match(r'//#\s*(\S+)\s*(?:\[([^\]]*)\])?', t.text)
            if m:
                pending = (m.group(1), m.group(2).replace(',', ' ').split() if m.group(2) else None)
            continue
        if t.kind == 'ident' and t.text == 'assert':
            # end at ';' or matching by-block
            j = k + 1
            end = t.end
            nc = toks
            while j < len(nc):
                u = nc[j]
                if u.kind == 'punct' and u.text in OPEN:
                    e = index_withcomment(nc, match_close(toks_nocomment(nc), index_nocomment(nc, j)))
                    end = nc[e].end
                    if u.text == '{':
                        break
                    j = e + 1
                    continue
                if u.kind == 'punct' and u.text == ';':
                    end = u.end
                    break
                j += 1
            out.append((pending[0] if pending else None, pending[1] if pending else None, base_off + t.start, base_off + end))
            pending = None
    return out


def rscan_strip(text):
    """blank out comments, keeping offsets"""
    out = list(text)
    for t in tokenize(text, keep_comments=True):
        if t.kind == 'comment':
            for i in range(t.start, t.end):
                if out[i] != '\n':
                    out[i] = ' '
    return ''.join(out)


def line_of(text, off):
    return text.count('\n', 0, off) + 1


def enumerate_obligations(unit, woven, items):
    """-> list of dict(id, fn, kind, props, line_a, line_b, label)"""
    obs = []
    # item regions
    for m in re.finditer(r'/\*ITEM<([^*]*)\*/(.*?)/\*>ITEM\*/', woven, re.S):
        name = m.group(1)
        w = next(x for x in items if x['spec'].name == name)
        if not w['is_fn']:
            continue
        props = w['spec'].props
        base = m.start(2)
        region = m.group(2)
        counters = {}

        def nid(kind, label):
            counters[kind] = counters.get(kind, 0) + 1
            if label:
                return '%s/%s/%s' % (unit, name, label)
            return '%s/%s/%s#%d' % (unit, name, kind, counters[kind])
        has_ghost = False
        for g in re.finditer(r'/\*G<([HS])\*/(.*?)/\*>G\*/', region, re.S):
            has_ghost = True
            seg = g.group(2)
            off = base + g.start(2)
            if g.group(1) == 'H':
                for kw, label, p, a, b in _split_clauses(seg, off):
                    if kw in ('requires', 'recommends'):
                        continue
                    kind = {'ensures': 'post', 'returns': 'post', 'invariant': 'inv', 'invariant_except_break': 'inv', 'decreases': 'term'}[kw]
                    oid = nid(kind, label)
                    obs.append(dict(id=oid, fn=name, kind=kind, props=p or props, line_a=line_of(woven, a), line_b=line_of(woven, b), item=True))
            else:
                for label, p, a, b in _split_stmts(seg, off):
                    oid = nid('assert', label)
                    obs.append(dict(id=oid, fn=name, kind='assert', props=p or props, line_a=line_of(woven, a), line_b=line_of(woven, b), item=True))
        # implicit safety obligations of the exec body (overflow, index, unwrap, callee preconditions)
        obs.append(dict(id='%s/%s/safety' % (unit, name), fn=name, kind='safety', props=props,
                        line_a=line_of(woven, base), line_b=line_of(woven, m.end(2)), item=True))
    # prelude lemmas: every `proof fn` with a body outside item regions counts as one obligation per ensures clause
    outside = re.sub(r'/\*ITEM<([^*]*)\*/(.*?)/\*>ITEM\*/', lambda mm: re.sub(r'[^\n]', ' ', mm.group(0)), woven, flags=re.S)
    for m in re.finditer(r'\bproof\s+fn\s+(\w+)', rscan_strip(outside)):
        # a prelude proof fn directly preceded by `//#carries <label> [props]` states a property-carrying fact
        # about extracted items (e.g. the value of a constant): it is an obligation of those properties.
        ls = woven.rfind('\n', 0, m.start())
        pls = woven.rfind('\n', 0, ls)
        prevline = woven[pls + 1:ls].strip()
        mc = re.match(r'//#carries\s+(\S+)\s*\[([^\]]*)\]', prevline)
        ln = line_of(woven, m.start())
        # extent of the proof fn: up to its closing brace
        rest_toks = tokenize(woven[m.start():])
        end_off = m.start()
        for k, t in enumerate(rest_toks):
            if t.kind == 'punct' and t.text == '{':
                end_off = m.start() + rest_toks[match_close(rest_toks, k)].end
                break
        if mc:
            obs.append(dict(id='%s/%s' % (unit, mc.group(1)), fn=m.group(1), kind='post', props=mc.group(2).replace(',', ' ').split(),
                            line_a=ln, line_b=line_of(woven, end_off), item=False))
        else:
            obs.append(dict(id='%s/lemma/%s' % (unit, m.group(1)), fn=m.group(1), kind='lemma', props=None,
                            line_a=ln, line_b=line_of(woven, end_off), item=False))
    return obs


# ---------------------------------------------------------------------------------------------
# running Verus

def run_verus(path, rlimit=None, seed=None, multiple_errors=8, extra=None, timeout=900):
    cmd = ['verus', path, '--output-json', '--time', '--multiple-errors', str(multiple_errors)]
    if rlimit:
        cmd += ['--rlimit', str(rlimit)]
    if seed is not None:
        cmd += ['--smt-option', 'smt.random_seed=%d' % seed]
    if extra:
        cmd += extra
    t0 = time.time()
    try:
        p = subprocess.run(cmd, capture_output=True, text=True, timeout=timeout, cwd=os.path.dirname(path))
        out, err, rc = p.stdout, p.stderr, p.returncode
    except subprocess.TimeoutExpired as e:
        out, err, rc = (e.stdout or ''), (e.stderr or '') + '\nTIMEOUT', 124
        if isinstance(out, bytes):
            out = out.decode()
        if isinstance(err, bytes):
            err = err.decode()
    wall = time.time() - t0
    js = None
    try:
        a = out.index('{')
        js = json.loads(out[a:])
    except Exception:
        js = None
    return dict(cmd=' '.join(cmd), rc=rc, stdout=out, stderr=err, json=js, wall=wall)


_err_head = re.compile(r'^(error|warning|note)(\[[A-Z0-9]+\])?: (.*)$')


def parse_errors(stderr):
    """-> list of dict(level, msg, spans=[(line, col, label)])"""
    errs = []
    cur = None
    lines = stderr.split('\n')
    i = 0
    while i < len(lines):
        ln = lines[i]
        m = _err_head.match(ln)
        if m:
            if m.group(1) == 'note' and cur is not None and not ln.startswith('note: '):
                pass
            cur = dict(level=m.group(1), msg=m.group(3), spans=[], text=[ln])
            errs.append(cur)
        elif cur is not None:
            cur['text'].append(ln)
            m2 = re.match(r'^\s*(-->|:::)\s+(\S+?):(\d+):(\d+)', ln)
            if m2:
                cur['spans'].append([int(m2.group(3)), int(m2.group(4)), ''])
            else:
                # line-number gutter `123 |   code` followed by marker lines `| ^^^^ label`
                m3 = re.match(r'^\s*(\d+)\s*\|', ln)
                if m3:
                    cur['_last_line'] = int(m3.group(1))
                m4 = re.match(r'^\s*\|\s*[\s|_]*([\^\-]+)\s*(.*)$', ln)
                if m4 and '_last_line' in cur:
                    cur['spans'].append([cur['_last_line'], 0, m4.group(2).strip()])
        i += 1
    for e in errs:
        e['text'] = '\n'.join(e['text']).rstrip()
        e.pop('_last_line', None)
    return errs


VERIF_FAIL_MSGS = (
    'postcondition not satisfied', 'invariant not satisfied', 'precondition not satisfied',
    'assertion failed', 'possible arithmetic underflow/overflow', 'possible division by zero',
    'decreases not satisfied', 'could not prove termination', 'possible bit shift underflow/overflow',
    'unreachable', 'index out of bounds', 'might not be allowed', 'failed this',
    'cannot show invariant', 'loop invariant', 'recommendation not met', 'possible overflow', 'assertion failure',
    'unable to prove', 'not satisfied', 'might fail', 'possible',
)
RLIMIT_MSGS = ('Resource limit', 'rlimit', 'timed out', 'timeout')


def classify(errs):
    """split Verus diagnostics into verification failures, resource-outs, and compile problems"""
    vf, ro, comp = [], [], []
    for e in errs:
        if e['level'] != 'error':
            continue
        msg = e['msg']
        if msg.startswith('aborting due to') or msg.startswith('could not compile'):
            continue
        if any(s in msg for s in RLIMIT_MSGS):
            ro.append(e)
        elif any(s in msg for s in VERIF_FAIL_MSGS):
            vf.append(e)
        else:
            comp.append(e)
    return vf, ro, comp


def map_failures(vf, obligations):
    """map each verification failure to the most specific obligation(s)"""
    failed = {}
    for e in vf:
        all_lines = [s[0] for s in e['spans']]
        best = None
        # the primary span (`-->`) first; secondary label lines only if the primary maps to nothing explicit
        for lines in ([all_lines[:1]] if all_lines else []) + [all_lines]:
            for ob in obligations:
                if ob['kind'] in ('safety', 'lemma'):
                    continue
                if any(ob['line_a'] <= l <= ob['line_b'] for l in lines):
                    if best is None or (ob['line_b'] - ob['line_a']) < (best['line_b'] - best['line_a']):
                        best = ob
            if best is not None:
                break
        lines = all_lines
        if best is None:
            in_item = None
            for ob in obligations:
                if ob['kind'] == 'safety' and lines and ob['line_a'] <= lines[0] <= ob['line_b']:
                    in_item = ob
            if in_item is not None:
                best = in_item
            else:
                for ob in obligations:
                    if ob['kind'] == 'lemma' and lines and ob['line_a'] <= lines[0] <= ob['line_b']:
                        best = ob
        if best is None:
            best = dict(id='?/unmapped@%s' % (lines[:1] or ['?'])[0], kind='unmapped', props=None, fn='?')
        failed.setdefault(best['id'], dict(ob=best, errors=[]))['errors'].append(e)
    return failed


def function_results(js):
    """-> {fn_name: dict(success, time_us, rlimit)} from verus json"""
    res = {}
    if not js:
        return res
    try:
        mods = js['times-ms']['smt']['smt-run-module-times']
    except Exception:
        return res
    for mod in mods:
        for f in mod.get('function-breakdown', []):
            nm = f.get('function', '')
            res[nm] = dict(success=f.get('success'), time_us=f.get('time-micros', f.get('time', 0)), rlimit=f.get('rlimit'))
    return res


def build_unit(vc_path, workdir, repo=None, mutate=None):
    """weave a unit into workdir/<unit>.rs; returns dict(unit, props, path, woven, items, erasure)"""
    repo = repo or REPO
    W._src_cache.clear()
    text = open(vc_path, encoding='utf-8').read()
    unit, uprops, woven, items = W.weave(repo, text, os.path.dirname(os.path.abspath(vc_path)))
    erasure = W.erase_check(repo, woven, items)
    final = W.finalize(woven)
    if mutate:
        final = mutate(final)
    os.makedirs(workdir, exist_ok=True)
    path = os.path.join(workdir, '%s.rs' % unit)
    with open(path, 'w', encoding='utf-8') as f:
        f.write(final)
    return dict(unit=unit, props=uprops, path=path, woven=final, items=items, erasure=erasure)


if __name__ == '__main__':
    vc = sys.argv[1]
    wd = os.path.join(VERIF, 'work', 'dev')
    try:
        b = build_unit(vc, wd)
    except W.Undecided as e:
        print('UNDECIDED:', e)
        sys.exit(2)
    obs = enumerate_obligations(b['unit'], b['woven'], b['items'])
    r = run_verus(b['path'], rlimit=float(sys.argv[2]) if len(sys.argv) > 2 else None, extra=os.environ.get('VERUS_EXTRA', '').split() or None)
    errs = parse_errors(r['stderr'])
    vf, ro, comp = classify(errs)
    print(r['cmd'], 'rc=%d wall=%.1fs' % (r['rc'], r['wall']))
    if r['json']:
        print('verification-results:', r['json'].get('verification-results'))
    print('obligations:', len(obs))
    for e in comp:
        print('COMPILE:', e['text'][:1500])
    for e in ro:
        print('RLIMIT:', e['text'][:600])
    failed = map_failures(vf, obs)
    for oid, d in failed.items():
        print('FAILED', oid)
        for e in d['errors']:
            print('   ', e['text'][:1200].replace('\n', '\n    '))
    fr = function_results(r['json'])
    slow = sorted(fr.items(), key=lambda kv: -kv[1]['time_us'])[:8]
    for nm, d in slow:
        print('  %-60s %8.1f ms  ok=%s' % (nm, d['time_us'] / 1000.0, d['success']))
