"""extract + weave + erasure check.

A contract file (contracts/<unit>.vc) is a Verus source template.  Lines starting with `//@`
are directives, everything else is copied verbatim (prelude: spec functions, lemmas, shims).

    //@ unit U1
    //@ item src/entity.rs :: fn serialize_text [props=C01,C14] [name=serialize_text]
    //@ drop-attr <regex>            drop outer attributes whose text matches (counted, reported)
    //@ vis pub                      R3: widen visibility to `pub`
    //@ ret r                        R0: `-> T`  =>  `-> (r: T)`
    //@ iter K it                    R1: K-th loop `for x in E` => `for x in it: E`
    //@ closure K name               R2: K-th closure with single param `_`  =>  `|name|`
    //@ sig                          ghost clauses inserted before the body `{`
    //@ body                         ghost statements inserted right after the body `{`
    //@ loop K                       ghost clauses before the `{` of the K-th loop (source order)
    //@ loop-body K                  ghost statements right after that `{`
    //@ loop-end K                   ghost statements right before the loop's closing `}`
    //@ before N <tokens>            ghost statements before the N-th occurrence of the token pattern
    //@ after N <tokens>             ghost statements after it
    //@ tail                         ghost statements before the closing `}` of the fn body
    //@ end

Inside a ghost section a line `//# <label> [C01,C14]` names the next clause / statement.

Everything the weaver adds is wrapped in marker comments so that the independent erasure check
(`erase_check`) can (1) verify each added segment has a ghost-only syntactic form, (2) delete
them and (3) compare the remaining token stream with a fresh extraction from /repo.
"""
import hashlib
import re
from dataclasses import dataclass, field

from rscan import tokenize, find_item, match_close, text_of, ScanError, OPEN, CLOSE


class Undecided(Exception):
    """tool / reach problem: exit 2, never an alarm"""


HEADER_KW = {'requires', 'ensures', 'invariant', 'invariant_except_break', 'decreases', 'recommends',
             'returns', 'no_unwind', 'opens_invariants'}
STMT_KW = {'proof', 'assert', 'broadcast', 'reveal', 'reveal_with_fuel'}
FORBIDDEN_IN_GHOST = {'assume', 'admit'}


@dataclass
class Section:
    kind: str            # sig/body/loop/loop-body/loop-end/before/after/tail
    arg: str = ''
    n: int = 0
    lines: list = field(default_factory=list)
    src_line: int = 0


@dataclass
class ItemSpec:
    file: str
    path: list
    props: list
    name: str
    sections: list = field(default_factory=list)
    ret: str = ''
    vis_pub: bool = False
    iters: dict = field(default_factory=dict)
    closures: dict = field(default_factory=dict)
    forloops: dict = field(default_factory=dict)
    closure_pats: dict = field(default_factory=dict)
    structural: bool = False
    vis_fields: bool = False
    no_prologue: bool = False
    static_lifetime: bool = False
    drop_attrs: list = field(default_factory=list)
    replace_self: str = ''
    src_line: int = 0


def parse_vc(text):
    """-> (unit_name, unit_props, chunks) chunks = list of ('text', str) | ('item', ItemSpec)"""
    unit = None
    uprops = []
    chunks = []
    prologue = []
    prologue_open = False
    cur = None
    sec = None
    buf = []
    for ln, line in enumerate(text.split('\n'), 1):
        s = line.strip()
        if s.startswith('//@'):
            d = s[3:].strip()
            kw, _, rest = d.partition(' ')
            rest = rest.strip()
            if kw == 'prologue':
                prologue_open = True
                continue
            if kw == 'end-prologue':
                prologue_open = False
                continue
            if kw == 'unit':
                unit = rest
            elif kw == 'properties':
                uprops = rest.replace(',', ' ').split()
            elif kw == 'item':
                if cur is not None:
                    raise Undecided('vc line %d: nested item' % ln)
                if buf:
                    chunks.append(('text', '\n'.join(buf) + '\n'))
                    buf = []
                props = list(uprops)
                name = ''
                m = re.search(r'\[props=([^\]]*)\]', rest)
                if m:
                    props = m.group(1).replace(',', ' ').split()
                    rest = rest.replace(m.group(0), '')
                m = re.search(r'\[name=([^\]]*)\]', rest)
                if m:
                    name = m.group(1).strip()
                    rest = rest.replace(m.group(0), '')
                parts = [p.strip() for p in rest.split('::')]
                file = parts[0]
                path = parts[1:]
                if not name:
                    name = path[-1].split()[-1]
                cur = ItemSpec(file, path, props, name, src_line=ln)
                sec = None
            elif cur is None:
                raise Undecided('vc line %d: directive %r outside item' % (ln, kw))
            elif kw == 'end':
                if prologue and not cur.no_prologue:
                    ps = Section('body', src_line=ln)
                    ps.lines = list(prologue)
                    cur.sections.insert(0, ps)
                chunks.append(('item', cur))
                cur = None
                sec = None
            elif kw == 'ret':
                cur.ret = rest
            elif kw == 'vis':
                cur.vis_pub = True
            elif kw == 'vis-fields':
                cur.vis_fields = True
            elif kw == 'no-prologue':
                cur.no_prologue = True
            elif kw == 'iter':
                k, nm = rest.split()
                cur.iters[int(k)] = nm
            elif kw == 'structural':
                cur.structural = True
            elif kw == 'static-lifetime':
                cur.static_lifetime = True
            elif kw == 'forloop':
                k, nm = rest.split()
                cur.forloops[int(k)] = nm
            elif kw == 'closure':
                k, nm = rest.split()
                cur.closures[int(k)] = nm
            elif kw == 'drop-attr':
                cur.drop_attrs.append(rest)
            elif kw in ('sig', 'body', 'tail'):
                sec = Section(kw, src_line=ln)
                cur.sections.append(sec)
            elif kw in ('loop', 'loop-body', 'loop-end', 'loop-after'):
                sec = Section(kw, n=int(rest), src_line=ln)
                cur.sections.append(sec)
            elif kw == 'eta':
                k, _, pat = rest.partition(' ')
                sec = Section('eta', arg=pat.strip(), n=int(k), src_line=ln)
                cur.sections.append(sec)
            elif kw == 'closure-pat':
                k, nm = rest.split()
                cur.closure_pats[int(k)] = nm
            elif kw == 'closure-spec':
                parts = rest.split(None, 2)
                sec = Section(kw, arg='%s %s' % (parts[1], parts[2]), n=int(parts[0]), src_line=ln)
                cur.sections.append(sec)
            elif kw in ('before', 'after', 'after-stmt'):
                k, _, pat = rest.partition(' ')
                sec = Section(kw, arg=pat.strip(), n=int(k), src_line=ln)
                cur.sections.append(sec)
            else:
                raise Undecided('vc line %d: unknown directive %r' % (ln, kw))
        elif prologue_open:
            prologue.append(line)
        else:
            if cur is not None:
                if sec is not None:
                    sec.lines.append(line)
                elif s:
                    raise Undecided('vc line %d: text inside item outside a section' % ln)
            else:
                buf.append(line)
    if cur is not None:
        raise Undecided('vc: unterminated item %s' % cur.name)
    if buf:
        chunks.append(('text', '\n'.join(buf) + '\n'))
    return unit, uprops, chunks


# ---------------------------------------------------------------------------------------------
# extraction

_src_cache = {}


def load_src(repo, file):
    key = (repo, file)
    if key not in _src_cache:
        try:
            src = open('%s/%s' % (repo, file), encoding='utf-8').read()
        except OSError as e:
            raise Undecided('lost anchor: cannot read %s: %s' % (file, e))
        try:
            toks = tokenize(src)
        except ScanError as e:
            raise Undecided('lost anchor: cannot scan %s: %s' % (file, e))
        _src_cache[key] = (src, toks)
    return _src_cache[key]


def extract(repo, spec):
    """Return (tokens_of_item, src) for the item, with doc attributes / dropped attributes removed.
    tokens are rscan.Tok objects referencing `src`."""
    src, toks = load_src(repo, spec.file)
    try:
        it = find_item(src, toks, spec.path)
    except (LookupError, ScanError) as e:
        raise Undecided('lost anchor: %s :: %s: %s' % (spec.file, ' :: '.join(spec.path), e))
    sub = toks[it.tstart:it.tend + 1]
    # drop outer attributes that are doc attrs or match drop_attrs
    out = []
    k = 0
    dropped = []
    while k < len(sub):
        t = sub[k]
        if t.kind == 'punct' and t.text == '#' and k + 1 < len(sub) and sub[k + 1].text == '[' and _at_outer_attr(sub, k, it.tkw - it.tstart):
            e = match_close(sub, k + 1)
            atext = src[t.start:sub[e].end]
            if re.match(r'#\s*\[\s*doc\b', atext) or any(re.search(rx, atext) for rx in spec.drop_attrs):
                dropped.append(atext)
                k = e + 1
                continue
        out.append(t)
        k += 1
    return out, src, dropped, (it, toks)


def _at_outer_attr(sub, k, kwpos):
    # attribute is "outer" if it occurs before the item keyword
    return k < kwpos


def toks_text(toks):
    return [t.text for t in toks]


# ---------------------------------------------------------------------------------------------
# weaving

def _find_body_open(toks, kwidx):
    j = kwidx + 1
    while j < len(toks):
        u = toks[j]
        if u.kind == 'punct':
            if u.text == '{':
                return j
            if u.text in ('(', '['):
                j = match_close(toks, j) + 1
                continue
            if u.text == ';':
                return -1
        j += 1
    return -1


def _loops(toks, lo, hi):
    """indices of loop keywords (for/while/loop) within [lo,hi), in source order, with body open idx"""
    out = []
    for k in range(lo, hi):
        t = toks[k]
        if t.kind == 'ident' and t.text in ('for', 'while', 'loop'):
            if t.text == 'for' and toks[k + 1].text == '<':
                continue
            # `loop` label? fine. find body
            b = _find_body_open(toks, k)
            if b < 0:
                continue
            out.append((k, b, match_close(toks, b)))
    return out


def _find_pattern(toks, pat_toks, lo, hi):
    hits = []
    m = len(pat_toks)
    texts = [t.text for t in toks]
    for k in range(lo, hi - m + 1):
        if texts[k:k + m] == pat_toks:
            hits.append(k)
    return hits



def _closures(toks, lo, hi):
    """closures within [lo,hi): list of (bar_open, bar_close, body_start, body_end, is_block).
    A `|` starts a closure when it stands where an expression starts."""
    out = []
    k = lo
    starters = {'(', ',', '=', '{', ';', '>', ':', '[', '!', '&'}
    while k < hi:
        t = toks[k]
        if t.kind == 'punct' and t.text == '|':
            prev = toks[k - 1] if k > lo else None
            is_start = prev is None or (prev.kind == 'punct' and prev.text in starters) or (prev.kind == 'ident' and prev.text in ('move', 'return', 'in', 'else'))
            # `a || b` / `a | b`: previous token is an operand -> not a closure
            if is_start:
                # find closing bar
                if k + 1 < hi and toks[k + 1].text == '|' and toks[k + 1].start == t.end:
                    bc = k + 1
                else:
                    j = k + 1
                    bc = -1
                    while j < hi:
                        u = toks[j]
                        if u.kind == 'punct' and u.text in ('(', '[', '{'):
                            j = match_close(toks, j) + 1
                            continue
                        if u.kind == 'punct' and u.text == '|':
                            bc = j
                            break
                        j += 1
                    if bc < 0:
                        k += 1
                        continue
                bs = bc + 1
                # optional `-> T`
                if toks[bs].text == '-' and toks[bs + 1].text == '>':
                    j = bs + 2
                    while not (toks[j].kind == 'punct' and toks[j].text == '{'):
                        j += 1
                    bs = j
                if toks[bs].kind == 'punct' and toks[bs].text == '{':
                    be = match_close(toks, bs)
                    out.append((k, bc, bs, be, True))
                else:
                    j = bs
                    while j < hi:
                        u = toks[j]
                        if u.kind == 'punct' and u.text in ('(', '[', '{'):
                            j = match_close(toks, j) + 1
                            continue
                        if u.kind == 'punct' and u.text in (',', ')', ']', '}', ';'):
                            break
                        j += 1
                    out.append((k, bc, bs, j - 1, False))
                k = bc + 1
                continue
        k += 1
    return out


def weave_item(repo, spec):
    """Return dict(text=woven text, extracted_tokens=[...], rules={R0:..}, dropped_attrs=[...], sha=..., lines=(a,b))"""
    toks, src, dropped, (it, alltoks) = extract(repo, spec)
    n = len(toks)
    # locate keyword + body within `toks`
    kw = None
    for k, t in enumerate(toks):
        if t.kind == 'ident' and t.text in ('fn', 'struct', 'enum', 'const', 'type', 'impl', 'trait', 'static'):
            if t.text == 'const' and toks[k + 1].text == 'fn':
                continue
            kw = k
            break
    if kw is None:
        raise Undecided('cannot find item keyword in %s' % spec.name)
    is_fn = toks[kw].text == 'fn'
    body_open = _find_body_open(toks, kw) if is_fn else -1
    body_close = match_close(toks, body_open) if body_open >= 0 else -1

    # insertion map: token index -> list of (order, text) inserted BEFORE that token
    ins_before = {}
    ins_after = {}
    rules = {'R0': 0, 'R1': 0, 'R2': 0, 'R3': 0, 'R4': 0, 'R5': 0, 'R6': 0, 'R7': 0, 'R8': 0}
    r4c = {}
    obligations = []   # (label, props, kind)

    def add_before(idx, text):
        ins_before.setdefault(idx, []).append(text)

    def add_after(idx, text):
        ins_after.setdefault(idx, []).append(text)

    def ghost(sec, position):
        body = '\n'.join(sec.lines)
        return '/*G<%s*/\n%s\n/*>G*/' % (position, body)

    loops = _loops(toks, body_open + 1, body_close) if is_fn and body_open >= 0 else []

    if spec.vis_pub:
        # R3: replace visibility with pub: only widening of `pub(crate)` / none
        # find visibility tokens before kw (after attributes)
        s = kw
        while s - 1 >= 0 and not (toks[s - 1].kind == 'punct' and toks[s - 1].text == ']'):
            s -= 1
        vis = toks[s:kw]
        vtxt = ' '.join(t.text for t in vis)
        if vtxt.startswith('pub'):
            # pub(crate) -> pub : mark the `(crate)` part as removed-by-R3
            if len(vis) >= 4 and vis[1].text == '(':
                e = match_close(toks, s + 1)
                add_before(s + 1, '/*R3x<*/')
                add_after(e, '/*>R3x*/')
                rules['R3'] += 1
        else:
            add_before(s, '/*R3<*/pub /*>R3*/')
            rules['R3'] += 1

    if spec.vis_fields:
        # R3 on fields: every field of the struct becomes `pub` (visibility widening only)
        if toks[kw].text != 'struct':
            raise Undecided('vis-fields on non-struct %s' % spec.name)
        j = kw + 1
        while j < n and not (toks[j].kind == 'punct' and toks[j].text in ('{', '(')):
            j += 1
        if j < n:
            e = match_close(toks, j)
            k2 = j + 1
            at_start = True
            while k2 < e:
                u = toks[k2]
                if at_start:
                    # skip attributes
                    while toks[k2].text == '#' and toks[k2 + 1].text == '[':
                        k2 = match_close(toks, k2 + 1) + 1
                    u = toks[k2]
                    if k2 >= e:
                        break
                    if u.text == 'pub':
                        if toks[k2 + 1].text == '(':
                            e3 = match_close(toks, k2 + 1)
                            add_before(k2 + 1, '/*R3x<*/')
                            add_after(e3, '/*>R3x*/')
                            rules['R3'] += 1
                    else:
                        add_before(k2, '/*R3<*/pub /*>R3*/')
                        rules['R3'] += 1
                    at_start = False
                if u.kind == 'punct' and u.text in ('(', '[', '{'):
                    k2 = match_close(toks, k2) + 1
                    continue
                if u.kind == 'punct' and u.text == '<':
                    # generic args may contain commas: skip to matching '>'
                    depth = 1
                    k2 += 1
                    while k2 < e and depth:
                        if toks[k2].text == '<':
                            depth += 1
                        elif toks[k2].text == '>':
                            depth -= 1
                        elif toks[k2].text in ('(', '['):
                            k2 = match_close(toks, k2)
                        k2 += 1
                    continue
                if u.kind == 'punct' and u.text == ',':
                    at_start = True
                k2 += 1

    if spec.static_lifetime:
        # R7: `const N: &T = ..`  =>  `const N: &'static T = ..` (the lifetime Rust itself elides to in const items)
        if toks[kw].text not in ('const', 'static'):
            raise Undecided('static-lifetime on non-const %s' % spec.name)
        j = kw + 1
        done7 = False
        while j < n and toks[j].text != '=':
            if toks[j].text == '&' and toks[j + 1].kind != 'lifetime':
                add_after(j, "/*R7<*/'static /*>R7*/")
                rules['R7'] += 1
                done7 = True
            j += 1
        if not done7:
            raise Undecided('static-lifetime: no elided reference lifetime in %s' % spec.name)

    if spec.structural:
        # R5: `#[derive(.., PartialEq, Eq, ..)]` => `#[derive(.., PartialEq, Eq, .., Structural)]`
        # (Verus marker trait stating that `==` is the derived, structural equality)
        done5 = False
        for k in range(0, kw):
            if toks[k].text == 'derive' and toks[k + 1].text == '(':
                e5 = match_close(toks, k + 1)
                names = [t.text for t in toks[k + 2:e5]]
                if 'PartialEq' in names and 'Eq' in names:
                    add_before(e5, '/*R5<*/, Structural/*>R5*/')
                    rules['R5'] += 1
                    done5 = True
        if not done5:
            raise Undecided('structural: no derive(PartialEq, Eq) on %s' % spec.name)

    if spec.ret:
        if not is_fn:
            raise Undecided('ret on non-fn %s' % spec.name)
        # find `->` at depth 0 between kw and body_open
        j = kw
        arrow = -1
        while j < body_open:
            u = toks[j]
            if u.kind == 'punct' and u.text in ('(', '['):
                j = match_close(toks, j) + 1
                continue
            if u.text == '-' and toks[j + 1].text == '>' and toks[j + 1].start == u.end:
                arrow = j + 1
                break
            j += 1
        if arrow < 0:
            raise Undecided('ret: no return type in %s' % spec.name)
        # type ends before `where` at depth 0 or body_open
        e = arrow + 1
        depth = 0
        while e < body_open:
            u = toks[e]
            if u.kind == 'punct' and u.text in OPEN:
                e = match_close(toks, e) + 1
                continue
            if u.kind == 'ident' and u.text == 'where':
                break
            e += 1
        add_after(arrow, '/*R0<*/(%s: /*>R0*/' % spec.ret)
        add_before(e, '/*R0<*/)/*>R0*/')
        rules['R0'] += 1

    for k, nm in spec.iters.items():
        if k >= len(loops):
            raise Undecided('iter %d: no such loop in %s' % (k, spec.name))
        lk = loops[k][0]
        if toks[lk].text != 'for':
            raise Undecided('iter %d: not a for loop in %s' % (k, spec.name))
        # find `in` at depth 0
        j = lk + 1
        while j < loops[k][1]:
            u = toks[j]
            if u.kind == 'punct' and u.text in ('(', '['):
                j = match_close(toks, j) + 1
                continue
            if u.kind == 'ident' and u.text == 'in':
                break
            j += 1
        add_after(j, '/*R1<*/ %s: /*>R1*/' % nm)
        rules['R1'] += 1

    for k, nm in spec.forloops.items():
        # R4: `for PAT in EXPR BODY`  =>  `{ let mut nm = EXPR; loop { match nm.next() { Some(PAT) => BODY None => break } } }`
        # (the language's own definition of `for`, with IntoIterator::into_iter being the identity on iterators)
        if k >= len(loops):
            raise Undecided('forloop %d: no such loop in %s' % (k, spec.name))
        lk, lb, le = loops[k]
        if toks[lk].text != 'for':
            raise Undecided('forloop %d: not a for loop in %s' % (k, spec.name))
        j = lk + 1
        while j < lb:
            u = toks[j]
            if u.kind == 'punct' and u.text in ('(', '['):
                j = match_close(toks, j) + 1
                continue
            if u.kind == 'ident' and u.text == 'in':
                break
            j += 1
        if j >= lb:
            raise Undecided('forloop %d: no `in` in %s' % (k, spec.name))
        pat_txt = src[toks[lk + 1].start:toks[j - 1].end]
        # delete `for PAT in` (kept inside a marker so that the erasure check can restore it)
        add_before(lk, '/*R4x<*/')
        add_after(j, '/*>R4x*/')
        add_after(j, '/*R4a<*/{ let mut %s = core::iter::IntoIterator::into_iter(/*>R4a*/' % nm)
        # after EXPR (before ghost header / body open): `; loop`
        ins_before.setdefault(lb, []).insert(0, '/*R4b<*/); loop /*>R4b*/')
        r4c[lb] = '/*R4c<*/{ match %s.next() { Some(/*>R4c*//*R4p<*/%s/*>R4p*//*R4d<*/) => /*>R4d*/' % (nm, pat_txt)
        add_after(le, '/*R4e<*/ None => break, } } }/*>R4e*/')
        rules['R4'] += 1

    if spec.closures:
        # closures with a single `_` parameter: `|_|`
        cl = []
        for k in range(body_open + 1, body_close - 2):
            if toks[k].text == '|' and toks[k + 1].text == '_' and toks[k + 2].text == '|':
                cl.append(k + 1)
        for k, nm in spec.closures.items():
            if k >= len(cl):
                raise Undecided('closure %d: no such `|_|` closure in %s' % (k, spec.name))
            add_before(cl[k], '/*R2<*/%s/*>R2*//*R2x<*/' % nm)
            add_after(cl[k], '/*>R2x*/')
            rules['R2'] += 1

    pat_closures = {}
    if spec.closure_pats:
        # R2 (general form): a closure parameter pattern Verus rejects becomes a variable, and the pattern moves
        # into a `let` at the start of the closure body (Rust's own desugaring of closure parameter patterns)
        cls = _closures(toks, body_open + 1, body_close)
        for k, nm in spec.closure_pats.items():
            if k >= len(cls):
                raise Undecided('closure-pat %d: no such closure in %s' % (k, spec.name))
            bo, bc, bs, be, is_block = cls[k]
            if bc <= bo + 1:
                raise Undecided('closure-pat %d: closure has no parameter in %s' % (k, spec.name))
            pat_txt = src[toks[bo + 1].start:toks[bc - 1].end]
            add_before(bo + 1, '/*R2<*/%s/*>R2*//*R2x<*/' % nm)
            add_after(bc - 1, '/*>R2x*/')
            rules['R2'] += 1
            has_spec = any(s2.kind == 'closure-spec' and s2.n == k for s2 in spec.sections)
            ptoks = [t.text for t in tokenize(pat_txt)]
            if len(ptoks) == 2 and ptoks[0] == '&':
                # `|&x|` : Verus has no reference patterns; `let &x = r` is `let x = *r` (x: Copy, checked by rustc)
                pat_closures[k] = (nm, pat_txt, 'let %s = *%s;' % (ptoks[1], nm))
            else:
                pat_closures[k] = (nm, pat_txt, 'let %s = %s;' % (pat_txt, nm))
            let_txt = '/*R2l<*/%s/*>R2l*/' % pat_closures[k][2]
            if is_block:
                add_after(bs, let_txt)
            elif has_spec:
                pass   # closure-spec emits the braces and the let
            else:
                add_after(bc, '/*R6<*/{/*>R6*/' + let_txt)
                add_after(be, '/*R6<*/}/*>R6*/')

    for sec in spec.sections:
        if sec.kind == 'sig':
            if body_open < 0:
                raise Undecided('sig on bodiless item %s' % spec.name)
            add_before(body_open, ghost(sec, 'H'))
        elif sec.kind == 'body':
            if body_open >= 0:
                add_after(body_open, ghost(sec, 'S'))
        elif sec.kind == 'tail':
            add_before(body_close, ghost(sec, 'S'))
        elif sec.kind in ('loop', 'loop-body', 'loop-end', 'loop-after'):
            if sec.n >= len(loops):
                raise Undecided('%s %d: no such loop in %s' % (sec.kind, sec.n, spec.name))
            lk, lb, le = loops[sec.n]
            if sec.kind == 'loop':
                add_before(lb, ghost(sec, 'H'))
            elif sec.kind == 'loop-body':
                add_after(lb, ghost(sec, 'S'))
            elif sec.kind == 'loop-after':
                add_after(le, ghost(sec, 'S'))
            else:
                add_before(le, ghost(sec, 'S'))
        elif sec.kind == 'eta':
            # R8: a tuple-variant constructor used as a function value is eta-expanded:
            #     `Self::Start`  =>  `|v| -> (r: Self) ensures r == Self::Start(v) { Self::Start(v) }`
            pt = [t.text for t in tokenize(sec.arg)]
            hits = [h for h in _find_pattern(toks, pt, 0, n) if toks[h - 1].text == '(' and toks[h + len(pt)].text == ')']
            if sec.n >= len(hits):
                raise Undecided('eta: constructor %r as function value, occurrence %d not found in %s' % (sec.arg, sec.n, spec.name))
            h = hits[sec.n]
            ty = pt[0] if len(pt) >= 3 else 'Self'
            add_before(h, '/*R8<*/|eta_v| -> (eta_r: %s) ensures eta_r == /*>R8*/' % ty)
            add_after(h + len(pt) - 1, '/*R8<*/(eta_v) { %s(eta_v) }/*>R8*/' % sec.arg)
            rules['R8'] += 1
        elif sec.kind == 'closure-spec':
            # R6: `|p| EXPR`  =>  `|p| -> (name: T) <ghost clauses> { EXPR }`
            cls = _closures(toks, body_open + 1, body_close)
            if sec.n >= len(cls):
                raise Undecided('closure-spec %d: no such closure in %s' % (sec.n, spec.name))
            bo, bc, bs, be, is_block = cls[sec.n]
            nm, ty = sec.arg.split(None, 1)
            if toks[bc + 1].text == '-':
                raise Undecided('closure-spec %d: closure already has a return type in %s' % (sec.n, spec.name))
            let_txt = ''
            if sec.n in pat_closures and not is_block:
                let_txt = '/*R2l<*/%s/*>R2l*/' % pat_closures[sec.n][2]
            add_after(bc, '/*R6<*/ -> (%s: %s) /*>R6*/' % (nm, ty) + ghost(sec, 'H') + ('' if is_block else '/*R6<*/{/*>R6*/' + let_txt))
            if not is_block:
                add_after(be, '/*R6<*/}/*>R6*/')
            rules['R6'] += 1
        elif sec.kind in ('before', 'after', 'after-stmt'):
            pt = [t.text for t in tokenize(sec.arg)]
            hits = _find_pattern(toks, pt, 0, n)
            if sec.n >= len(hits):
                raise Undecided('%s: pattern %r occurrence %d not found in %s' % (sec.kind, sec.arg, sec.n, spec.name))
            if sec.kind == 'after-stmt':
                # behind the statement that contains the pattern: the next ';' at the nesting depth of the hit
                depth = 0
                k2 = hits[sec.n]
                end = None
                while k2 < n:
                    tx = toks[k2].text
                    if toks[k2].kind == 'punct' and tx in ('(', '[', '{'):
                        depth += 1
                    elif toks[k2].kind == 'punct' and tx in (')', ']', '}'):
                        depth -= 1
                        if depth < 0:
                            break
                    elif toks[k2].kind == 'punct' and tx == ';' and depth == 0:
                        end = k2
                        break
                    k2 += 1
                if end is None:
                    raise Undecided('after-stmt: no statement end behind pattern %r in %s' % (sec.arg, spec.name))
                add_after(end, ghost(sec, 'S'))
            elif sec.kind == 'before':
                # ghost statements go in front of anything a dialect rule puts at the same token (e.g. the R4 head)
                ins_before.setdefault(hits[sec.n], []).insert(0, ghost(sec, 'S'))
            else:
                add_after(hits[sec.n] + len(pt) - 1, ghost(sec, 'S'))

    # emit
    out = []
    pos = toks[0].start
    for k, t in enumerate(toks):
        # text between previous token end and this token start: whitespace / comments -> copy minus comments
        gap = src[pos:t.start]
        gap = _strip_gap(gap)
        out.append(gap)
        for text in ins_before.get(k, []):
            out.append(text)
        if k in r4c:
            out.append(r4c[k])
        out.append(src[t.start:t.end])
        for text in ins_after.get(k, []):
            out.append(text)
        pos = t.end
    # dropped attributes leave gaps: handled since toks excludes them (their text lies in a gap) ->
    # _strip_gap removes non-whitespace? No: attribute text is code, strip it explicitly.
    text = ''.join(out)
    line_a = src.count('\n', 0, toks[0].start) + 1
    line_b = src.count('\n', 0, toks[-1].end) + 1
    plain = ' '.join(t.text for t in toks)
    return dict(text=text, tokens=[t.text for t in toks], rules=rules, dropped_attrs=dropped,
                sha=hashlib.sha256(plain.encode()).hexdigest(), lines=(line_a, line_b),
                is_fn=is_fn)


def _strip_gap(gap):
    """gap between two kept tokens: keep whitespace only (comments and dropped attributes vanish)."""
    nl = gap.count('\n')
    if nl:
        # keep indentation of the last line
        tail = gap[gap.rfind('\n') + 1:]
        ws = ''.join(ch for ch in tail if ch in ' \t')
        return '\n' + ws
    return ' ' if gap else ''


def expand_includes(vc_text, incdir, seen=None):
    seen = seen or []
    out = []
    for line in vc_text.split('\n'):
        m = re.match(r'\s*//@\s*include\s+(\S+)\s*$', line)
        if m:
            fn = m.group(1)
            if fn in seen:
                raise Undecided('include cycle: %s' % fn)
            try:
                inc = open('%s/%s' % (incdir, fn), encoding='utf-8').read()
            except OSError as e:
                raise Undecided('include %s: %s' % (fn, e))
            out.append('// ---- include %s ----' % fn)
            out.append(expand_includes(inc, incdir, seen + [fn]))
            out.append('// ---- end include %s ----' % fn)
        else:
            out.append(line)
    return '\n'.join(out)


def weave(repo, vc_text, incdir=None):
    if incdir:
        vc_text = expand_includes(vc_text, incdir)
    unit, uprops, chunks = parse_vc(vc_text)
    out = []
    items = []
    for kind, payload in chunks:
        if kind == 'text':
            out.append(payload)
        else:
            w = weave_item(repo, payload)
            w['spec'] = payload
            items.append(w)
            out.append('/*ITEM<%s*/\n' % payload.name)
            out.append(w['text'])
            out.append('\n/*>ITEM*/\n')
    return unit, uprops, ''.join(out), items


# ---------------------------------------------------------------------------------------------
# erasure check (independent of the weaver's bookkeeping: works on the woven text + a fresh extraction)

_marker = re.compile(r'/\*(G<[HS]|>G|R0<|>R0|R1<|>R1|R2<|>R2|R2x<|>R2x|R2l<|>R2l|R3<|>R3|R3x<|>R3x|R4[a-ex]<|>R4[a-epx]|R4p<|R5<|>R5|R6<|>R6|R7<|>R7|R8<|>R8|ITEM<[^*]*|>ITEM)\*/')


def _check_ghost_form(seg, position, where):
    toks = tokenize(seg)
    if not toks:
        return
    for t in toks:
        if t.kind == 'ident' and t.text in FORBIDDEN_IN_GHOST:
            raise Undecided('erasure: `%s` inside woven ghost text of %s' % (t.text, where))
    if position == 'H':
        if not (toks[0].kind == 'ident' and toks[0].text in HEADER_KW):
            raise Undecided('erasure: header ghost segment of %s starts with %r' % (where, toks[0].text))
        # no statement-level braces that close the header: the segment must be bracket-balanced
        _balanced(toks, where)
        return
    # statement position: sequence of ghost statements
    _balanced(toks, where)
    k = 0
    while k < len(toks):
        t = toks[k]
        ok = False
        if t.kind == 'ident' and t.text in STMT_KW:
            ok = True
        elif t.kind == 'ident' and t.text == 'let' and k + 1 < len(toks) and toks[k + 1].text in ('ghost', 'tracked'):
            ok = True
        if not ok:
            raise Undecided('erasure: non-ghost statement starting with %r in woven text of %s' % (t.text, where))
        # advance to end of statement: `proof {..}` ends at its brace; others end at ';' depth 0
        if t.text == 'proof':
            if toks[k + 1].text != '{':
                raise Undecided('erasure: malformed proof block in %s' % where)
            k = match_close(toks, k + 1) + 1
            continue
        j = k + 1
        while j < len(toks):
            u = toks[j]
            if u.kind == 'punct' and u.text in OPEN:
                e = match_close(toks, j)
                # `assert(..) by { .. }` / `assert forall .. by { .. }` may end without ';'
                if u.text == '{' and e + 1 < len(toks) and toks[e + 1].text == 'else':
                    j = e + 2          # `if .. { .. } else ..` continues the same ghost statement
                    continue
                if u.text == '{' and (e + 1 >= len(toks) or toks[e + 1].text != ';'):
                    j = e
                    break
                j = e + 1
                continue
            if u.kind == 'punct' and u.text == ';':
                break
            j += 1
        k = j + 1


def _balanced(toks, where):
    stack = []
    for t in toks:
        if t.kind != 'punct':
            continue
        if t.text in OPEN:
            stack.append(OPEN[t.text])
        elif t.text in CLOSE:
            if not stack or stack.pop() != t.text:
                raise Undecided('erasure: unbalanced ghost segment in %s' % where)
    if stack:
        raise Undecided('erasure: unbalanced ghost segment in %s' % where)


def erase_check(repo, woven, items):
    """For every /*ITEM<name*/ region of `woven`: delete marked segments (after form checks) and compare
    the token stream with a fresh extraction.  Returns per-item rule counts."""
    regions = {}
    for m in re.finditer(r'/\*ITEM<([^*]*)\*/(.*?)/\*>ITEM\*/', woven, re.S):
        regions.setdefault(m.group(1), []).append(m.group(2))
    report = {}
    for w in items:
        spec = w['spec']
        if spec.name not in regions or len(regions[spec.name]) != 1:
            raise Undecided('erasure: item region %s missing or duplicated' % spec.name)
        region = regions[spec.name][0]
        kept = []
        pos = 0
        stack = None
        counts = {'R0': 0, 'R1': 0, 'R2': 0, 'R3': 0, 'R4': 0, 'R5': 0, 'R6': 0, 'R7': 0, 'R8': 0, 'ghost_segments': 0}
        r8_open = None
        r4_pat, r4_name = [], []
        r2_names, r2_pats = [], []
        for m in _marker.finditer(region):
            tag = m.group(1)
            if stack is None:
                kept.append(region[pos:m.start()])
                if tag.startswith('>'):
                    raise Undecided('erasure: stray close marker in %s' % spec.name)
                stack = (tag, m.end())
            else:
                otag, ostart = stack
                seg = region[ostart:m.start()]
                if otag.startswith('G<') and tag == '>G':
                    _check_ghost_form(seg, otag[2], spec.name)
                    counts['ghost_segments'] += 1
                elif otag == 'R0<' and tag == '>R0':
                    st = [t.text for t in tokenize(seg)]
                    if not (st == [')'] or (len(st) == 3 and st[0] == '(' and st[2] == ':' and re.fullmatch(r'[A-Za-z_]\w*', st[1]))):
                        raise Undecided('erasure: bad R0 segment %r in %s' % (seg, spec.name))
                    if st != [')']:
                        counts['R0'] += 1
                elif otag == 'R1<' and tag == '>R1':
                    st = [t.text for t in tokenize(seg)]
                    if not (len(st) == 2 and st[1] == ':' and re.fullmatch(r'[A-Za-z_]\w*', st[0])):
                        raise Undecided('erasure: bad R1 segment %r in %s' % (seg, spec.name))
                    counts['R1'] += 1
                elif otag == 'R2<' and tag == '>R2':
                    st = [t.text for t in tokenize(seg)]
                    if not (len(st) == 1 and re.fullmatch(r'[A-Za-z_][A-Za-z0-9_]*', st[0])):
                        raise Undecided('erasure: bad R2 segment %r in %s' % (seg, spec.name))
                    counts['R2'] += 1
                    r2_names.append(st[0])
                elif otag == 'R2x<' and tag == '>R2x':
                    # original token `_` kept here but must be deleted from the verified text: it is wrapped
                    # in a comment by the emitter (see finalize) -> seg must be exactly `_`
                    # the original parameter pattern: restored here, and remembered for the matching `let`
                    st = [t.text for t in tokenize(seg)]
                    if not st or '|' in st or ';' in st or '{' in st:
                        raise Undecided('erasure: bad R2x segment %r in %s' % (seg, spec.name))
                    kept.append(' ' + seg + ' ')
                    r2_pats.append(st)
                elif otag == 'R2l<' and tag == '>R2l':
                    st = [t.text for t in tokenize(seg)]
                    ok = False
                    for nm2, pat2 in zip(r2_names, r2_pats):
                        if st == ['let'] + pat2 + ['=', nm2, ';']:
                            ok = True
                        if len(pat2) == 2 and pat2[0] == '&' and st == ['let', pat2[1], '=', '*', nm2, ';']:
                            ok = True
                    if not ok:
                        raise Undecided('erasure: `let` of a closure parameter pattern does not match the original pattern: %r in %s' % (seg, spec.name))
                elif otag == 'R3<' and tag == '>R3':
                    if seg.strip() != 'pub':
                        raise Undecided('erasure: bad R3 segment in %s' % spec.name)
                    counts['R3'] += 1
                elif otag == 'R3x<' and tag == '>R3x':
                    st = [t.text for t in tokenize(seg)]
                    if st not in (['(', 'crate', ')'], ['(', 'super', ')']):
                        raise Undecided('erasure: bad R3x segment %r in %s' % (seg, spec.name))
                    kept.append(seg)
                    counts['R3'] += 1
                elif otag == 'R5<' and tag == '>R5':
                    if [t.text for t in tokenize(seg)] != [',', 'Structural']:
                        raise Undecided('erasure: bad R5 segment %r in %s' % (seg, spec.name))
                    counts['R5'] += 1
                elif otag == 'R8<' and tag == '>R8':
                    st = [t.text for t in tokenize(seg)]
                    if r8_open is None:
                        # `|eta_v| -> (eta_r: T) ensures eta_r ==`
                        if not (len(st) == 14 and st[:3] == ['|', 'eta_v', '|'] and st[3:7] == ['-', '>', '(', 'eta_r'] and st[7] == ':'
                                and re.fullmatch(r'[A-Za-z_]\w*', st[8]) and st[9:] == [')', 'ensures', 'eta_r', '=', '=']):
                            raise Undecided('erasure: bad R8 head %r in %s' % (seg, spec.name))
                        r8_open = len(kept)
                    else:
                        path = [t.text for t in tokenize(''.join(kept[r8_open:]))]
                        if not (path and all(re.fullmatch(r'[A-Za-z_]\w*|:', x) for x in path)
                                and st == ['(', 'eta_v', ')', '{'] + path + ['(', 'eta_v', ')', '}']):
                            raise Undecided('erasure: bad R8 tail %r (path %r) in %s' % (seg, path, spec.name))
                        r8_open = None
                        counts['R8'] += 1
                elif otag == 'R7<' and tag == '>R7':
                    if [t.text for t in tokenize(seg)] != ["'static"]:
                        raise Undecided('erasure: bad R7 segment %r in %s' % (seg, spec.name))
                    counts['R7'] += 1
                elif otag == 'R6<' and tag == '>R6':
                    st = [t.text for t in tokenize(seg)]
                    if st in (['{'], ['}']):
                        pass
                    elif (len(st) >= 6 and st[0] == '-' and st[1] == '>' and st[2] == '(' and st[4] == ':' and st[-1] == ')'
                          and re.fullmatch(r'[A-Za-z_]\w*', st[3])
                          and all(re.fullmatch(r"[A-Za-z_]\w*|'\w+|[&<>,:()\[\]]", x) for x in st[5:-1])):
                        counts['R6'] += 1
                    else:
                        raise Undecided('erasure: bad R6 segment %r in %s' % (seg, spec.name))
                elif otag == 'R4x<' and tag == '>R4x':
                    st = [t.text for t in tokenize(seg)]
                    if not (len(st) >= 3 and st[0] == 'for' and st[-1] == 'in'):
                        raise Undecided('erasure: bad R4x segment %r in %s' % (seg, spec.name))
                    kept.append(seg)          # the original `for PAT in` is restored
                    r4_pat.append(st[1:-1])
                elif otag == 'R4a<' and tag == '>R4a':
                    st = [t.text for t in tokenize(seg)]
                    if not (len(st) == 16 and st[:3] == ['{', 'let', 'mut'] and st[4] == '=' and re.fullmatch(r'[A-Za-z_]\w*', st[3])
                            and ''.join(st[5:]) == 'core::iter::IntoIterator::into_iter('):
                        raise Undecided('erasure: bad R4a segment %r in %s' % (seg, spec.name))
                    r4_name.append(st[3])
                elif otag == 'R4b<' and tag == '>R4b':
                    if [t.text for t in tokenize(seg)] != [')', ';', 'loop']:
                        raise Undecided('erasure: bad R4b segment %r in %s' % (seg, spec.name))
                elif otag == 'R4c<' and tag == '>R4c':
                    st = [t.text for t in tokenize(seg)]
                    if not (r4_name and st == ['{', 'match', r4_name[-1], '.', 'next', '(', ')', '{', 'Some', '(']):
                        raise Undecided('erasure: bad R4c segment %r in %s' % (seg, spec.name))
                elif otag == 'R4p<' and tag == '>R4p':
                    st = [t.text for t in tokenize(seg)]
                    if not (r4_pat and st == r4_pat[-1]):
                        raise Undecided('erasure: R4 pattern differs from the original in %s' % spec.name)
                elif otag == 'R4d<' and tag == '>R4d':
                    if [t.text for t in tokenize(seg)] != [')', '=', '>']:
                        raise Undecided('erasure: bad R4d segment %r in %s' % (seg, spec.name))
                elif otag == 'R4e<' and tag == '>R4e':
                    if [t.text for t in tokenize(seg)] != ['None', '=', '>', 'break', ',', '}', '}', '}']:
                        raise Undecided('erasure: bad R4e segment %r in %s' % (seg, spec.name))
                    counts['R4'] += 1
                else:
                    raise Undecided('erasure: marker mismatch %s .. %s in %s' % (otag, tag, spec.name))
                stack = None
                pos = m.end()
                continue
            pos = m.end()
        if stack is not None:
            raise Undecided('erasure: unterminated marker in %s' % spec.name)
        kept.append(region[pos:])
        erased = [t.text for t in tokenize(''.join(kept))]
        fresh, _, _, _ = extract(repo, spec)
        fresh = [t.text for t in fresh]
        if erased != fresh:
            # locate first difference
            k = 0
            while k < min(len(erased), len(fresh)) and erased[k] == fresh[k]:
                k += 1
            raise Undecided('erasure mismatch in %s at token %d: woven %r vs repo %r' % (
                spec.name, k, erased[k:k + 6], fresh[k:k + 6]))
        report[spec.name] = counts
    return report


def finalize(woven):
    """Text handed to Verus: R2x / R3x segments hold original tokens that the dialect rule replaces;
    they are commented out here (the erasure check above works on the un-finalized text)."""
    woven = re.sub(r'/\*R2x<\*/(.*?)/\*>R2x\*/', lambda m: '/*R2x ' + m.group(1).strip() + ' */', woven, flags=re.S)
    woven = re.sub(r'/\*R4x<\*/(.*?)/\*>R4x\*/', lambda m: '/*R4x ' + m.group(1).strip() + ' */', woven, flags=re.S)
    woven = re.sub(r'/\*R3x<\*/(.*?)/\*>R3x\*/', lambda m: '/*R3x ' + m.group(1).strip() + ' */', woven, flags=re.S)
    return woven
