#!/usr/bin/env python3
"""dev helper: print / update the trusted-base scan counts and obligation count for a unit (never run by checks)"""
import json, os, sys, importlib.machinery, importlib.util
here = os.path.dirname(os.path.abspath(__file__))
sys.path.insert(0, here)
import unit as U
loader = importlib.machinery.SourceFileLoader('check', os.path.join(here, '..', 'check'))
spec = importlib.util.spec_from_loader('check', loader); chk = importlib.util.module_from_spec(spec); loader.exec_module(chk)
vc = sys.argv[1]
b = U.build_unit(vc, os.path.join(here, '..', 'work', 'dev'))
scan = chk.trusted_scan(b['woven'])
obs = U.enumerate_obligations(b['unit'], b['woven'], b['items'])
print(b['unit'], scan, 'obligations', len(obs))
if '--update' in sys.argv:
    p = os.path.join(here, '..', 'contracts', 'TRUSTED.json')
    d = json.load(open(p))
    d.setdefault(b['unit'], {'items': []})['counts'] = scan
    d[b['unit']]['obligations'] = len(obs)
    json.dump(d, open(p, 'w'), indent=1)
