#!/usr/bin/env python3
"""regenerate MANIFEST.json from contracts/PROPERTIES.json + contracts/NOT_APPLICABLE.json (dev helper)"""
import json, os
here = os.path.dirname(os.path.abspath(__file__))
root = os.path.dirname(here)
props = json.load(open(os.path.join(root, 'contracts', 'PROPERTIES.json')))
na = json.load(open(os.path.join(root, 'contracts', 'NOT_APPLICABLE.json')))
ids = [json.loads(l)['id'] for l in open(os.path.join(root, 'properties.jsonl'))]
hooks_commits = json.load(open(os.path.join(root, 'contracts', 'HOOKS.json')))
m = {
 "version": 1,
 "setup_cmd": "./setup.sh",
 "hooks": {"guard": "xot_verif",
           "enable": "RUSTFLAGS=\"--cfg xot_verif\" when building /verif/replay against /repo (the Verus checks read /repo/src directly and need no hook)",
           "baseline_off_cmd": "cd /repo && cargo test --workspace --no-fail-fast --offline",
           "source_commits": hooks_commits.get("source_commits", []), "add_only": True},
 "engines": [{"name": "verus-weave", "path": "check", "serves_properties": [p for p in ids if p in props],
              "kind_free_text": "contract-based deductive verification: functions extracted verbatim from /repo on every run, ghost contracts woven in (contracts/*.vc), independent erasure check, Verus 0.2026.09.13 discharges every obligation; failing obligation -> witness search on the real crate (replay/)"}],
 "checks": [], "not_applicable": [],
 "notes": "exit 2 of a check means undecided (tool/reach problem), never a violation. See DESIGN.md."}
for p in ids:
    if p in props:
        c = props[p]
        m["checks"].append({
            "property_id": p, "quick_cmd": "./check %s --tier quick" % p, "thorough_cmd": "./check %s --tier thorough" % p,
            "evidence_file": "evidence/%s.json" % p, "replay_cmd_template": "./check %s --replay {path}" % p, "engine": "verus-weave",
            "level_claimed": {"category": "proof", "text": c.get("level_text") or c["explanation"], "design_ref": c.get("design_ref", "DESIGN.md §5")},
            "level_note": c.get("level_note") or ("Not under contract / assumed: " + "; ".join(c.get("assumptions", []))),
            "technique": c.get("technique", "contract-based deductive verification (Verus) of functions extracted verbatim from /repo"
                              + ("; functions outside the verifier's reach are covered by bounded stand-ins on the real crate (%s), labelled bounded and not counted as proved" % ", ".join(b["target"] for b in c["bounded"]) if c.get("bounded") else ""))})
    else:
        m["not_applicable"].append({"property_id": p, "reason": na.get(p, "not yet built (work in progress; DESIGN.md §5 names the planned unit)")})
json.dump(m, open(os.path.join(root, 'MANIFEST.json'), 'w'), indent=1)
print('checks:', [c['property_id'] for c in m['checks']])
