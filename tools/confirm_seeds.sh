#!/bin/sh
# dev helper: confirm every kept seeded change in a scratch worktree (outside /repo and /verif):
#   with the change: the existing suite passes and the demo fails; without it: the demo passes.
cd "$(dirname "$0")/.."
V=$(pwd)
W=/tmp/seedconfirm
git -C /repo worktree remove --force $W 2>/dev/null
git -C /repo worktree add -f $W HEAD -q
for d in ${SEEDS:-seeded/*/}; do
  id=$(basename "$d")
  cd $W && git checkout -q -- . && rm -f tests/seed_demo.rs
  cp "$V/$d/demo.rs" tests/seed_demo.rs
  base=$(cargo test --offline --test seed_demo 2>&1 | grep -E "^test result" | head -1)
  git apply "$V/$d/patch.diff" || { echo "$id: patch does not apply"; continue; }
  withc=$(cargo test --offline --test seed_demo 2>&1 | grep -E "^test result" | head -1)
  rm tests/seed_demo.rs
  suite=$(cargo test --workspace --no-fail-fast --offline 2>&1 | grep -E "^test result" | awk '{p+=$4; f+=$6} END {print "passed " p " failed " f}')
  echo "$id | unchanged: $base | changed: $withc | suite with change: $suite"
  echo "unchanged: $base | changed: $withc | suite with change: $suite" > "$V/$d/confirmed.txt"
done
cd /repo && git worktree remove --force $W
