#!/bin/sh
# Offline setup: nothing is fetched. Warms Verus up and builds the replay crate (if present) against /repo.
set -e
cd "$(dirname "$0")"
mkdir -p work evidence replays
cat > work/warm.rs <<'EOR'
use vstd::prelude::*;
verus! { proof fn warm() ensures 1 + 1 == 2int {} }
fn main() {}
EOR
verus work/warm.rs >/dev/null 2>&1 || { echo "verus not runnable"; exit 1; }
if [ -f replay/Cargo.toml ]; then
  (cd replay && CARGO_NET_OFFLINE=true RUSTFLAGS="--cfg xot_verif" cargo build --release --offline --quiet)
fi
echo setup ok
